#!/usr/bin/env python3
"""Regenerate /verif/MANIFEST.json from the table below (one place to keep claims, levels and reasons current)."""
import json, os, subprocess

V = os.path.dirname(os.path.dirname(os.path.abspath(__file__)))
props = [json.loads(l) for l in open(os.path.join(V, "properties.jsonl"))]

# property id -> (category, technique, level text, level note) ; absent = not claimed (reason in NOT_APPLICABLE)
CLAIMS = {
 "C17": ("exploration",
         "runtime monitoring: process-level monitor of the real binary (stdout bytes, stderr, exit status) against the reference evaluator's output and the same text evaluated through eval_file in the driver",
         "random displaying programs with an optional run-time fault or syntax error at a random form and an optional library file beside the program are written with LF/CRLF and with/without final newline and run as ruschm FILE from an unrelated working directory holding a decoy library, by absolute and relative path; stdout must equal the reference evaluator's output up to the failing form and the library interface's output, exit status must be 0 iff no form failed, and a failure must give exactly one diagnostic FILE[:LINE:COL] MESSAGE with the library interface's message and a location inside the failing form; missing, directory, empty and non-UTF-8 files are covered.",
         "mode-000 files are not generated (root reads them anyway); ANSI colour codes are stripped"),

 "C18": ("exploration",
         "runtime monitoring: exhaustive comparison of the REPL's submission test (hook H2) with token-level depth from the independent tokenizer; transcript monitor on the real binary over a pipe under random line splittings vs form-by-form evaluation through the library interface",
         "(i) every string up to length 5 (6 thorough) over a bracket/quote/comment alphabet is given to the REPL's own submission test and to an independent tokenizer; (ii) random sessions (core and derived-form programs, failing forms, displays, literals containing brackets) are fed to the built binary over a pipe under 4 line splittings with comments; stdout and stderr must agree across splittings and equal the values, display output and error messages of the same forms evaluated one after another through Interpreter::eval.",
         "lexically invalid text and unimplemented comment syntax may be judged either way by the submission test; a quote and its datum are kept on one line (the REPL's rule speaks about lists)"),

 "C15": ("exploration",
         "runtime monitoring: location oracle from an independent tokenizer's form and token extents over fault programs (8 faults x 7 contexts) under random layouts, plus syntax errors with a known offending token",
         "fault programs are rendered with random multi-line layout, indentation, comments and 0-30 preceding forms and evaluated as one text by the real interpreter; the independent tokenizer gives the extent of every top-level form and of the uniquely named offending token; the reported location must be present and lie in the failing form, at the offending identifier/operator for unbound reads and non-procedure operators written in the failing form; syntax errors with a location must point at or before the offending token.",
         "both column conventions are accepted (span [start, end+1]); a fault whose offending token sits in a procedure defined by an earlier form may be reported at the token or anywhere in the failing form"),

 "C16": ("exploration",
         "runtime monitoring: print/read-back round trip on the real printer and reader over random value trees; structural + exactness oracle, format rules, injectivity over the run",
         "random value trees built by evaluation (the C09 operand grid, results of arithmetic, literals and computed values of every binary32 class, characters, symbols, proper/improper lists, vectors) are printed by the code display uses and the text is read back as a quoted datum by the real reader; the read-back value must be structurally equal with the same exactness (reals bit-equal), the text must use single spaces and a dotted tail exactly for improper lists, and over the whole run equal texts must come from equal values; hundreds of the printed texts are also read back within one source text, and vectors that contained themselves earlier must print their elements once the cycle is removed.",
         "values containing strings, non-finite reals or symbols needing bars are skipped (counted)"),

 "C06": ("exploration",
         "runtime monitoring: independent R7RS tokenizer/reader as oracle; exhaustive short strings through the real Lexer (token boundaries + data), through the real reader, and random datum trees under random layouts (metamorphic)",
         "every string up to length 4 (5 thorough) over a 16-character alphabet is tokenized by the real Lexer and by an independent tokenizer: token boundaries must coincide (tokens split only at delimiters) and supported tokens must carry the right datum; the strings that denote exactly one datum are also read through eval and compared, malformed dotted lists must be rejected; random datum trees are rendered three ways with random whitespace/comments and must read back as the tree. The missing delimiter after #t/#f/#\\c is a listed known finding (pinned by the repository's own tests).",
         "trusted base: vlib/sxread.py; sign-dot identifiers (+.a) and other valid-but-unimplemented syntax may be rejected but not re-split"),

 "C04": ("exploration",
         "runtime monitoring: reference syntax-rules matcher/instantiator as oracle over an exhaustive pattern x use grid and random rule sets with derived and mutated uses; observed through eval and through Transformer::transform",
         "every single-rule macro with a pattern of bounded size over an 11-element alphabet against every use of bounded size over 12 data, sampled two-rule sets, and random rule sets (1-5 rules, depth 3) with uses instantiated from their own patterns and single-point mutations are expanded by the real expander; the selected rule and the instantiated template (or the syntax error when no rule matches) are judged by an independent matcher for exactly the class the property names.",
         "trusted base: vlib/ref_macro.py (60 lines); templates are quoted data so the expansion is observable as a value"),

 "C19": ("exploration",
         "runtime monitoring: differential isolation monitor (B interleaved with A on a second instance vs B alone on a fresh thread), instance-creation probe after every step, snapshot of the shared macro table around every step",
         "random program pairs with colliding names are interleaved form by form over two interpreter instances on one thread under several random interleavings; A defines and redefines macros (cond, let, or ...), rebinds builtins, fails imports and raises errors. Every record of B (value, error, tick trace, output) must equal the record of B run alone on a fresh thread, a third instance must be constructible after every step of A, and the bundled macro table must be unchanged after every step.",
         "differential: B alone is the reference (B is also filtered through the reference evaluator at generation)"),

 "C13": ("exploration",
         "runtime monitoring: differential oracle (reference module system inside the reference evaluator) over random library/program scenarios with stateful libraries and colliding names",
         "random scenarios of 2-5 libraries and an importing program (a stateful counter library read through several import paths, libraries importing libraries, renamed and unexported internals, importer definitions colliding with library internals and with (scheme base), redefinition of imported names, a library referring to importer-only names) run on the real interpreter; every form's result is judged by a reference module system with one instance per program; import sets are spread over several declarations, with failing declarations (also ones whose first import sets succeed) between them, a library whose body has an effect when it is instantiated, and an already registered library registered again.",
         "trusted base: module system of vlib/ref_scheme.py; exports are procedures and constants"),

 "C14": ("fault_enumeration",
         "runtime monitoring: fault enumeration over library graphs x node kinds x import histories; loader-model oracle + quiescent-point invariant on the in-progress set (hook H3)",
         "every directed graph on 1-2 libraries (3 sampled in quick, all registered-source cases in thorough, 4 sampled) x every assignment of 6 node kinds x every history of 3 import attempts is run on the real interpreter, libraries as files under a program directory (decoy libraries in the process's cwd) and as registered sources. Each attempt's outcome must be the one a fresh depth-first load gives (success iff no fault and no cycle reachable; error kind among the reachable ones), the names bound must be exactly the exports of the successfully imported libraries with the program directory's values, and after every step the in-progress set must be empty. Further legs: program files in several directories on one interpreter, a library supplied again (with two levels of dependants, versions healthy/changed/faulting/self-importing/missing), libraries that involve macros or re-export a shared dependency's bindings, and library files holding several libraries.",
         "any reachable error kind is accepted; termination is judged by a logical step budget, process death or a hang is a violation"),

 "C12": ("exploration",
         "runtime monitoring: exhaustive enumeration of import-set terms observed through eval_import (names + values of a fresh environment) against the import-set algebra, replicated across threads/processes",
         "every admissible import-set term to nesting depth 2 (depth 3 sampled) over a 4-export library is evaluated by the real interpreter through the eval_import API into a fresh environment whose exact name set and values are read back, several times in different threads/processes (different hash seeds), for a native and a Scheme-source library; a sample is also run as (import ...) text, as declarations of several (also overlapping) import sets, and as histories of 2-3 declarations on one environment. The oracle is a 15-line map algebra.",
         "admissible terms only; identifier lists are written in arbitrary order on purpose"),

 "C08": ("fault_enumeration",
         "runtime monitoring: fault injection (8 fault kinds x 5 calling contexts x position/depth) with effect probes before/after, judged by the reference evaluator",
         "one faulting operation of each of 8 kinds is injected in each of 5 calling contexts (direct, tail at trampoline iteration 1/2/k, apply, inside map/for-each/fold, inside a derived form in a procedure body) at a random position and depth of an otherwise valid program, between effects and followed by forms reading them back; error kind, absence of an invented value, surviving effects and later forms are judged by the reference evaluator - among the later forms reads and assignments of whatever the fault could have left behind (a name whose definition failed, an unbound variable whose assignment failed, closures that escaped from the failing frame). Every one of the 40 cells must be observed or the run is inconclusive.",
         "trusted base: vlib/ref_scheme.py error kinds; operand-vs-check order is free but must be one strategy per program"),

 "C05": ("exploration",
         "runtime monitoring: tick-trace monitor + reference evaluator with native (hygienic) derived forms over exhaustive form pairs x positions and random nestings",
         "every ordered pair of the 9 derived forms with the inner one in each of the 33 sub-form positions of the outer one, plus random nestings inside procedures, is evaluated by the real interpreter with a ticking expression in every position; the value and the exact tick trace (which sub-forms ran, how often, in which order) are judged by the reference evaluator. Capture by the unhygienic expander is a listed known finding, recognised by alpha-renaming the program.",
         "trusted base: derived forms of vlib/ref_scheme.py; programs that use an unspecified value as a test are not generated"),

 "C11": ("exploration",
         "runtime monitoring: reference-model oracle on Python lists + tick-trace monitor for procedure arguments over random argument tuples and compositions",
         "random argument tuples for each of the 31 library procedures (in-domain, just outside, too short) and random compositions are evaluated by the real interpreter; value, error-vs-value and the tick trace of procedure arguments (once per element, list order) are judged by a model on Python lists.",
         "trusted base: the list library of vlib/ref_scheme.py; any error kind is accepted where the model raises one"),

 "C01": ("exploration",
         "runtime monitoring: differential oracle (reference evaluator, 8 evaluation strategies) + metamorphic spelling comparison over typed random programs with tick traces",
         "typed random terminating programs over the core forms are evaluated form by form by the real interpreter; the value and the tick trace (order and multiplicity of operand evaluation) of every form are judged by an independent reference evaluator under one consistent evaluation strategy, and four equivalent spellings of each program must agree with each other.",
         "trusted base: vlib/ref_scheme.py (written from R7RS); integers kept below 2^20 so arithmetic defects cannot interfere"),
 "C02": ("exploration",
         "runtime monitoring: native probe samples real machine stack depth and live heap at every loop iteration; flatness invariant + closed-form result",
         "loops whose recursive call sits in compositions of the 16 tail contexts x 8 loop shapes x direct/apply x N are run on the real interpreter; a native probe called once per iteration records the machine stack depth and a counting allocator's live bytes; after warm-up both must be flat and the result must equal the closed form. One genuine defect (an Rc cycle per internally defined procedure leaks heap per iteration) is a listed known finding.",
         "flatness thresholds 1 KiB stack / 1 byte per iteration heap (three orders of magnitude of margin); 'any N' sampled at the stated N"),
 "C03": ("exploration",
         "runtime monitoring: history + executable store model, unique written values, probe reads after every write, alias partition from Rc pointer identity",
         "random histories of definitions, assignments through closures, counter/cell/box/bag generators and vector writes through every kind of alias are run on one interpreter; after every write a probe reads all aliases; values, error kinds and the partition of reachable vectors into objects (Rc pointer identity) must equal the store model's.",
         "trusted base: vlib/ref_scheme.py store model; cyclic vectors are not generated"),

 "C07": ("exploration",
         "runtime monitoring: panic/abort monitor + post-state sanity oracle over exhaustive short strings, token soup, shaped programs, mutants; ASan and Miri legs in thorough",
         "every generated input is evaluated by the real interpreter under catch_unwind on a guarded thread, followed by a sanity form on the same instance; panics, aborts and a wrong sanity result are violations. Held on the K inputs explored (exhaustive up to a stated length, then seeded generators); says nothing about inputs not generated.",
         "trusts catch_unwind + process-death attribution via a marker file; non-termination, allocation failure and deep recursion are excluded by the property and counted as inconclusive cases"),
 "C09": ("exploration",
         "runtime monitoring: reference-model oracle (Fractions / binary32) over an exhaustive operand grid on dev and release builds",
         "every unary/binary operation and 3-operand fold over a 77-operand grid (literals and computed values, every internal representation) plus random tuples is executed by the real interpreter in the dev (overflow-checked) and release (wrapping) builds; each observed Number is judged by an independent exact/binary32 model in the weakest reading of the statement.",
         "trusted base: python Fraction arithmetic and struct-based binary32 rounding; decimal literals may round directly or via binary64; beyond 2^15 an inexact result or an error is accepted"),
 "C10": ("exploration",
         "runtime monitoring: reference-model oracle + oracle-free order-axiom monitor over all pairs/triples of the operand grid",
         "all predicates, max/min on every ordered pair and triple and eqv? on every pair of the grid are executed by the real interpreter (dev + release) and judged against Fraction / binary32 order; independently the observed relation itself is checked for trichotomy, symmetry and transitivity.",
         "mixed comparisons convert the exact operand to binary32; ratios with components >= 2^24 in mixed comparisons are not judged"),
}

PENDING = "check under construction (see DESIGN.md section 2); will be claimed once its machinery is committed"
NOT_APPLICABLE = {}

ENGINES = [
 {"name": "rvdrive", "path": "harness/", "kind_free_text": "Rust driver: runs histories of steps on real Interpreter instances under catch_unwind, fresh thread per job; records values/errors/panics, tick traces, stack/heap probes, display output, in-progress import marks; lex/expand/replcheck subcommands"},
 {"name": "check.py + vlib", "path": "check.py", "kind_free_text": "python orchestrator: workload generators, sharding with crash containment and watchdogs, reference models and offline checkers, known-findings matcher, evidence writer"},
]


def main():
    hooks = subprocess.check_output("git -C /repo log --format=%h --grep='^verif hook' --reverse", shell=True, text=True).split()
    checks = []
    for p in props:
        pid = p["id"]
        if pid not in CLAIMS:
            continue
        cat, tech, text, note = CLAIMS[pid]
        checks.append({
            "property_id": pid,
            "quick_cmd": "python3 check.py %s --tier quick" % pid,
            "thorough_cmd": "python3 check.py %s --tier thorough" % pid,
            "evidence_file": "evidence/%s.json" % pid,
            "replay_cmd_template": "python3 check.py %s --replay {path}" % pid,
            "engine": "rvdrive",
            "level_claimed": {"category": cat, "text": text, "design_ref": "DESIGN.md section 2, %s" % pid},
            "level_note": note,
            "technique": tech,
        })
    for e in ENGINES:
        e["serves_properties"] = sorted(CLAIMS)
    m = {
        "version": 1,
        "setup_cmd": "python3 check.py --setup",
        "hooks": {"guard": "ruschm_verif",
                  "enable": "the driver crate /verif/harness sets rustflags = [\"--cfg\", \"ruschm_verif\"] in its .cargo/config.toml and depends on /repo by path; check.py builds /repo's own binary with RUSTFLAGS='--cfg ruschm_verif'",
                  "baseline_off_cmd": "cd /repo && cargo test --workspace --no-fail-fast --offline",
                  "source_commits": hooks, "add_only": True},
        "engines": ENGINES,
        "checks": checks,
        "not_applicable": [{"property_id": p["id"], "reason": NOT_APPLICABLE.get(p["id"], PENDING)} for p in props if p["id"] not in CLAIMS],
        "notes": "exit codes: 0 held on everything explored, 1 violation (VIOLATION line), 2 inconclusive (INCONCLUSIVE line, never a VIOLATION). Known findings: known_findings.json.",
    }
    json.dump(m, open(os.path.join(V, "MANIFEST.json"), "w"), indent=1)
    print("claimed:", sorted(CLAIMS), "hooks:", hooks)


if __name__ == "__main__":
    main()

"""Text-level workload generators: exhaustive short strings, token soup, token mutations, hostile characters."""
import itertools, os, re
from . import core

ALPHA20 = list("()'.#\"\\;|aet10+-/ \n,")
assert len(ALPHA20) == 20

CORE_KEYWORDS = ["define", "lambda", "if", "quote", "set!", "define-syntax", "syntax-rules", "import",
                 "define-library", "export", "rename", "only", "except", "prefix", "...", "_", "else", "=>"]
BOUNDARY_LITERALS = ["0", "1", "-1", "2", "3", "10", "2147483647", "-2147483648", "2147483648", "99999999999", "1/2",
                     "-1/2", "1/0", "0/1", "1/", "4/2", "65536", "46341", "1e", "1e5", "1.e5", "1.5", "-0.0", ".5", "1e38",
                     "1e39", "1e-46", "+.5", "-", "+", "#t", "#f", "#\\a", "#\\", "#\\(", "\"\"", "\"s\"", "\"a\\", "\"", "|",
                     "|a b|", "#", "#u8(", "'()", "'", "`", ",", ",@", ".", "#(", "x", "y", "f", "g", "lst", "v", "n"]


def stdlib_exports():
    """names exported by the bundled (scheme base)/(scheme write), read from the tree under test"""
    names = []
    for fn in ("base.sld", "write.sld"):
        p = os.path.join(core.REPO, "src/interpreter/library/include/scheme", fn)
        try:
            t = open(p).read()
        except OSError:
            continue
        m = re.search(r"\(export\s+(.*?)\)\s*\(begin|\(export\s+(.*?)\)\s*\)", t, re.S)
        if m:
            body = m.group(1) or m.group(2)
            names += body.split()
    return [n for n in names if n]


def grammar_keywords():
    p = os.path.join(core.REPO, "src/parser/grammar.sld")
    try:
        t = open(p).read()
    except OSError:
        return []
    return re.findall(r"\(define-syntax\s+(\S+)", t)


def vocabulary():
    v = CORE_KEYWORDS + grammar_keywords() + stdlib_exports() + BOUNDARY_LITERALS
    seen, out = set(), []
    for x in v:
        if x not in seen:
            seen.add(x); out.append(x)
    return out


def exhaustive(alpha, maxlen, minlen=0):
    for n in range(minlen, maxlen + 1):
        for t in itertools.product(alpha, repeat=n):
            yield "".join(t)


BIG = re.compile(r"\d{5,}|e\d\d|e\+?\d\d")
ALLOCATORS = ("make-vector", "make-list")


def tame(text):
    """keep inputs inside the claim: no giant allocations (C07 excludes exhausting memory)"""
    if any(a in text for a in ALLOCATORS):
        text = BIG.sub("7", text)
        text = text.replace("*", "+")
    return text


def soup_tree(rng, vocab, depth, width):
    """random token tree rendered with balanced parentheses"""
    n = rng.randint(0, width)
    parts = []
    for _ in range(n):
        r = rng.random()
        if depth > 0 and r < 0.35:
            parts.append(soup_tree(rng, vocab, depth - 1, width))
        elif r < 0.40:
            parts.append("'" + rng.choice(vocab))
        else:
            parts.append(rng.choice(vocab))
    open_ = rng.choice(["(", "(", "(", "#(", "'("])
    return open_ + " ".join(parts) + ")"


def soup(rng, vocab, balanced=True):
    t = " ".join(soup_tree(rng, vocab, rng.randint(1, 5), rng.randint(1, 6)) for _ in range(rng.randint(1, 3)))
    if not balanced:
        # damage the parenthesis structure
        chars = list(t)
        for _ in range(rng.randint(1, 3)):
            k = rng.randrange(len(chars) + 1)
            op = rng.random()
            if op < 0.4 and chars:
                del chars[min(k, len(chars) - 1)]
            else:
                chars.insert(k, rng.choice("()\"|#'."))
        t = "".join(chars)
    return tame(t)


TOKEN_RE = re.compile(r"""\s+|;[^\n]*|\#\(|[()']|"(?:\\.|[^"\\])*"|\#\\.[^\s()]*|[^\s()'";]+""", re.S)


def tokenize_loose(text):
    return [t for t in TOKEN_RE.findall(text) if t.strip() and not t.startswith(";")]


def mutate_tokens(rng, toks, vocab, nmut=None):
    toks = list(toks)
    for _ in range(nmut or rng.randint(1, 3)):
        if not toks:
            break
        k = rng.randrange(len(toks))
        op = rng.randrange(5)
        if op == 0:
            del toks[k]
        elif op == 1:
            toks.insert(k, toks[k])
        elif op == 2:
            j = rng.randrange(len(toks)); toks[k], toks[j] = toks[j], toks[k]
        elif op == 3:
            toks[k] = rng.choice(vocab)
        else:
            toks.insert(k, rng.choice(vocab))
    return tame(" ".join(toks))


def split_toplevel(text):
    """split source text into top-level forms (by parenthesis depth on loose tokens)"""
    forms, cur, depth = [], [], 0
    for t in tokenize_loose(text):
        cur.append(t)
        if t in ("(", "#("):
            depth += 1
        elif t == ")":
            depth -= 1
        if depth <= 0 and t not in ("'",):
            forms.append(cur); cur = []; depth = 0
    if cur:
        forms.append(cur)
    return forms


def corpus_programs():
    """valid programs of the repository: examples, test programs, bodies of the bundled libraries"""
    progs = []
    roots = [os.path.join(core.REPO, "examples"), os.path.join(core.REPO, "tests/test_macros")]
    for r in roots:
        if os.path.isdir(r):
            for fn in sorted(os.listdir(r)):
                if fn.endswith((".scm", ".sld")):
                    progs.append(open(os.path.join(r, fn)).read())
    for p in ("src/parser/grammar.sld", "src/interpreter/library/include/scheme/base.sld",
              "src/interpreter/library/include/scheme/write.sld"):
        try:
            progs.append(open(os.path.join(core.REPO, p)).read())
        except OSError:
            pass
    return progs


HOSTILE_CHARS = ["\x00", "\x01", "\x07", "\x08", "\x0b", "\x0c", "\x1b", "\x7f", "\u0085", "\u00a0", "\u00e9", "\u03bb",
                 "\u2028", "\u200b", "\u3000", "\ud7ff", "\ue000", "\ufeff", "\uffff", "\U0001f600", "\U0010ffff", "\r", "\t",
                 "\n", " ", "(", ")", "\"", "\\", "#", "|", "'", ";", ".", "a", "1", "+", "-", "/", "e", "x"]


def hostile(rng, vocab):
    n = rng.randint(1, 12)
    parts = []
    for _ in range(n):
        r = rng.random()
        if r < 0.5:
            parts.append(rng.choice(HOSTILE_CHARS))
        elif r < 0.7:
            parts.append(rng.choice(vocab))
        elif r < 0.8:
            parts.append(" ")
        else:
            parts.append(chr(rng.choice([rng.randrange(0x20, 0x7f), rng.randrange(0xa0, 0x2000), rng.randrange(0x10000, 0x10ffff)])))
    return tame("".join(parts))


FORMALS = ["()", "x", "(x)", "(x y)", "(x . y)", "(x y . z)", "((a) b)", "(1)", "(x x)", "(x . 1)", "\"s\"", "(x (y))", "#(x)", "(x . (y))",
           "(. x)", "(x .)", "'x", "(x 'y)", "(#t)", "(x . #(y))"]
ATOMS = ["1", "2", "x", "y", "'a", "#t", "#f", "\"s\"", "'()", "'(1 2)", "#(1 2)", "1/2", "1.5", "car", "f", "g", "h", "(list 1 2)", "(vector 1)"]


def shaped_expr(rng, depth):
    r = rng.random()
    if depth <= 0 or r < 0.3:
        return rng.choice(ATOMS)
    if r < 0.45:
        return "(%s %s)" % (rng.choice(["f", "g", "h", "car", "apply", "map", "+", "vector-ref", "x"]),
                            " ".join(shaped_expr(rng, depth - 1) for _ in range(rng.randint(0, 4))))
    if r < 0.55:
        return "(if %s %s %s)" % tuple(shaped_expr(rng, depth - 1) for _ in range(3))
    if r < 0.65:
        return "(lambda %s %s)" % (rng.choice(FORMALS), shaped_expr(rng, depth - 1))
    if r < 0.72:
        return "((lambda %s %s) %s)" % (rng.choice(FORMALS), shaped_expr(rng, depth - 1),
                                         " ".join(shaped_expr(rng, depth - 1) for _ in range(rng.randint(0, 3))))
    if r < 0.80:
        kw = rng.choice(["let", "let*"])
        return "(%s (%s) %s)" % (kw, " ".join("(%s %s)" % (rng.choice(["x", "y", "1", "(a)"]), shaped_expr(rng, depth - 1))
                                               for _ in range(rng.randint(0, 3))), shaped_expr(rng, depth - 1))
    if r < 0.86:
        return "(cond %s)" % " ".join("(%s %s)" % (rng.choice(["else", shaped_expr(rng, depth - 1)]),
                                                   rng.choice(["=> " + shaped_expr(rng, depth - 1), shaped_expr(rng, depth - 1), ""]))
                                      for _ in range(rng.randint(0, 3)))
    if r < 0.90:
        return "(case %s %s)" % (shaped_expr(rng, depth - 1), " ".join(
            "(%s %s)" % (rng.choice(["else", "(1 2)", "(a)", "()", "1"]), shaped_expr(rng, depth - 1)) for _ in range(rng.randint(0, 3))))
    if r < 0.94:
        return "(%s %s)" % (rng.choice(["and", "or", "begin", "when", "unless"]),
                            " ".join(shaped_expr(rng, depth - 1) for _ in range(rng.randint(0, 3))))
    if r < 0.97:
        return "(set! %s %s)" % (rng.choice(["x", "f", "1", "(x)"]), shaped_expr(rng, depth - 1))
    return "(apply %s %s)" % (rng.choice(["f", "g", "car", "+"]), rng.choice(["'(1 2)", "'()", "1", "'(1 . 2)", "(list 1 2 3)"]))


def shaped(rng):
    """almost-valid programs: definitions with odd formals, calls with any arity in tail and non-tail position"""
    forms = []
    for name in rng.sample(["f", "g", "h"], rng.randint(1, 3)):
        if rng.random() < 0.5:
            forms.append("(define (%s . %s) %s)" % (name, rng.choice(FORMALS).strip("()") or "a", shaped_expr(rng, 3)))
        else:
            forms.append("(define %s (lambda %s %s))" % (name, rng.choice(FORMALS), shaped_expr(rng, 3)))
    for _ in range(rng.randint(1, 3)):
        forms.append(shaped_expr(rng, 3))
    return tame(" ".join(forms))


M_PATTERNS = ["(%s (a ...) (b ...))", "(%s (a ...) b ...)", "(%s (a b ...) (c d ...))", "(%s a)", "(%s a b ...)", "(%s (a b) ...)", "(%s a lit b)", "(%s)", "(%s #(a ...))", "(%s a . b)", "(%s _ a)", "(%s a (b c ...) ...)", "(%s 1 a)"]
M_TEMPLATES = ["(list (cons a b) ...)", "(quote ((a . b) ...))", "(quote (a ... b ...))", "(quote ((b a) ...))", "(let ((a b) ...) (list a ...))", "(quote ((a d) ...))", "(define a 1)", "(define-syntax a (syntax-rules () ((a) 1)))", "(define-syntax a (syntax-rules () ((a x) (%s x))))", "(begin a b ...)", "(lambda (a) b ...)",
               "((lambda () (define a 1) a))", "(let ((a b) ...) a ...)", "(%s a)", "(%s a a)", "(set! a b)", "(quote (a b ...))", "(cond (a b) ...)", "(if a b ...)", "(a b ...)",
               "(%s2 a)", "a", "(a ... ...)", "(define (a . b) b)", "(define-syntax %s (syntax-rules () ((%s x) x)))", "(let* ((a 1) (b a)) (%s b))", "(define-library (a) (export b))",
               "(import (a))", "(define-syntax a b)", "(begin (define-syntax a (syntax-rules () ((a) 'inner))) (a))", "(lambda () (define-syntax a (syntax-rules () ((a) 2))) (a))",
               "(b ... a)", "#(a b ...)", "(quote a)", "(vector a b ...)", "(case a ((b ...) 1) (else 2))", "(and a b ...)", "(when a b ...)", "(define a (lambda a a))"]
M_USES = ["(%s (1 2 3) (4 5))", "(%s (1) (2 3 4))", "(%s (1 2) 3 4 5)", "(%s () (1))", "(%s (1 2 3) 4)", "(%s (x y) (1 2))", "(%s x)", "(%s foo 1 2)", "(%s (p q) (r s))", "(%s)", "(%s #(1 2))", "(%s foo)", "(foo)", "foo", "(x)", "(%s (%s foo))", "(%s lit lit lit)", "(%s foo lit 3)", "(%s 1 foo)",
          "(%s foo . bar)", "(%s (a b c) (d))", "(define z (%s foo))", "((lambda () (%s foo)))", "(%s2 foo)", "(%s %s)", "(%s 'foo)"]


def macro_soup(rng):
    """macro definitions whose templates are code (definitions, syntax definitions, binding forms, recursive uses) and uses of them"""
    name = rng.choice(["mm", "def-macro", "my-let", "loop", "m1"])
    forms = []
    for k in range(rng.randint(1, 2)):
        nm = name if k == 0 else name + "2"
        rules = []
        for _ in range(rng.randint(1, 3)):
            p = rng.choice(M_PATTERNS) % nm
            t = rng.choice(M_TEMPLATES).replace("%s2", name + "2").replace("%s", name)
            rules.append("(%s %s)" % (p, t))
        forms.append("(define-syntax %s (syntax-rules (lit) %s))" % (nm, " ".join(rules)))
    for _ in range(rng.randint(1, 5)):
        forms.append(rng.choice(M_USES).replace("%s2", name + "2").replace("%s", name))
    return tame(" ".join(forms))


# ------------------------------------------------------------------ random syntax-rules macros (patterns, templates and uses all random)
def _mf_pattern(rng, depth, vars_):
    """random pattern text; ellipses may follow anything, more than once, and not only at the end"""
    n = rng.randint(0, 4)
    items = []
    for _ in range(n):
        c = rng.random()
        if depth <= 0 or c < 0.55:
            v = rng.choice(["a", "b", "c", "d", "a", "b", "_", "lit", "1", "#t", "\"s\""])
            if v in "abcd":
                vars_.append(v)
            items.append(v)
        elif c < 0.85:
            items.append(_mf_pattern(rng, depth - 1, vars_))
        else:
            items.append("#" + _mf_pattern(rng, depth - 1, vars_))
        if rng.random() < 0.3:
            items.append("...")
    if items and rng.random() < 0.06:
        items.insert(-1, ".")
    return "(" + " ".join(items) + ")"


def _mf_template(rng, depth, vars_):
    n = rng.randint(0, 4)
    items = []
    for _ in range(n):
        c = rng.random()
        if depth <= 0 or c < 0.5:
            items.append(rng.choice((vars_ or ["a"]) * 3 + ["a", "b", "x", "list", "cons", "quote", "1", "'k", "lambda", "define", "let", "if"]))
        elif c < 0.9:
            items.append(_mf_template(rng, depth - 1, vars_))
        else:
            items.append("#" + _mf_template(rng, depth - 1, vars_))
        if rng.random() < 0.3:
            items.append("...")
            if rng.random() < 0.1:
                items.append("...")
    if len(items) >= 2 and rng.random() < 0.08:
        items.insert(-1, ".")
    return "(" + " ".join(items) + ")"


def _mf_datum(rng, depth):
    if depth <= 0 or rng.random() < 0.5:
        return rng.choice(["1", "2", "3", "x", "lit", "#t", "\"s\"", "()", "'q"])
    n = rng.choice([0, 1, 2, 2, 3, 3, 4, 5])
    body = " ".join(_mf_datum(rng, depth - 1) for _ in range(n))
    if n >= 2 and rng.random() < 0.06:
        parts = body.split(" ")
        body = " ".join(parts[:-1]) + " . " + parts[-1]
    return ("#(" if rng.random() < 0.15 else "(") + body + ")"


def macro_fuzz(rng):
    """a macro with random rules (several ellipses per pattern, ellipsis variables of different patterns mixed under one template
    ellipsis, wrong ellipsis depth, dotted forms) and random uses with sub-lists of unequal lengths"""
    nm = rng.choice(["mz", "pair-up", "zip"])
    rules = []
    for _ in range(rng.randint(1, 3)):
        vars_ = []
        p = _mf_pattern(rng, rng.randint(1, 2), vars_)
        p = "(" + nm + (" " + p[1:] if len(p) > 2 else ")")
        t = _mf_template(rng, rng.randint(1, 3), vars_)
        if rng.random() < 0.6:
            t = "(quote %s)" % t
        rules.append("(%s %s)" % (p, t))
    forms = ["(define-syntax %s (syntax-rules (lit) %s))" % (nm, " ".join(rules))]
    for _ in range(rng.randint(1, 6)):
        forms.append("(%s %s)" % (nm, " ".join(_mf_datum(rng, 2) for _ in range(rng.randint(0, 4)))))
    return tame(" ".join(forms))


# ------------------------------------------------------------------ procedures and self-referential structures as data
PV_MAKERS = [
    "(define (make-a) (define (loop n) (if (> n 0) (loop (- n 1)) 'done)) loop)",
    "(define (make-b) (define (ev? n) (if (= n 0) #t (od? (- n 1)))) (define (od? n) (if (= n 0) #f (ev? (- n 1)))) ev?)",
    "(define (make-c x) (lambda (y) (+ x y)))",
    "(define (make-d) (define self #f) (set! self (lambda () self)) self)",
    "(define (make-e . r) (lambda () r))",
    "(define (make-f) (define v (vector 0 0)) (define (get) v) (vector-set! v 0 get) get)",
    "(define (make-g) (let* ((a (lambda () 1)) (b (lambda () a))) b))",
    "(define make-h (lambda () (define (k) (list k k)) k))",
]
PV_USES = ["(eqv? %a %b)", "(eq? %a %b)", "(equal? %a %b)", "(equal? (list %a) (list %b))", "(equal? (vector %a 1) (vector %b 1))", "(memv %a (list 1 %b %a))", "(memq %a (list %b))",
           "(case %a ((1 2) 'n) (else 'other))", "(display %a)", "(display (list %a %b))", "(eqv? %a %a)", "(equal? (%a) (%b))", "(list? %a)", "(procedure? %a)",
           "(map %a (list 1 2))", "(apply %a (list %b))", "(%a %b)", "(vector-ref (vector %a) 0)", "(let ((p %a)) (eq? p p))", "(define zq %a)", "(set! zq %b)", "(eqv? zq %a)",
           "(fold-left cons '() (list %a %b))", "(append (list %a) %b)", "(equal? (%a) %a)", "(cond ((eqv? %a %b) => (lambda (t) t)) (else %a))"]


def procedure_values(rng):
    """procedures (also mutually recursive, self-referential and environment-sharing ones) handled as data: compared, searched for, stored, printed, applied to each other"""
    forms = rng.sample(PV_MAKERS, rng.randint(1, 3))
    names = [f.split()[1].strip("()") for f in forms]
    vals = []
    for n in names:
        arg = " 1" if n == "make-c" else ""
        vals += ["(%s%s)" % (n, arg), "(%s%s)" % (n, arg)]
    vals += ["car", "zq-id", "(lambda (x) x)", "make-a" if "make-a" in names else "list"]
    for _ in range(rng.randint(2, 6)):
        u = rng.choice(PV_USES)
        forms.append(u.replace("%a", rng.choice(vals)).replace("%b", rng.choice(vals)))
    return " ".join(forms)


# ------------------------------------------------------------------ aging: histories of failures without side effects
AGING = ["(car '())", "(list (list (list (list (list (car '()))))))", "(undefined-variable-zz)", "(let ((a)) a)", "(let ((a 1) (b)) b)", "(cond)", "(let* ((x 1) (y (car '()))) y)",
         "(when (undefined-zz) 1)", "(and 1 (or #f (car '())))", "(cond ((car '()) 1) (else 2))", "(case (car '()) ((1) 2))", "(if)", "(lambda)", "(let ((x 1) . 2) x)",
         "(begin (begin (begin (vector-ref (vector) 0))))", "((lambda (x) (x)) 5)", "(+ 1 (+ 2 (+ 3 (+ 4 'a))))", "(import (no such library zz))", "(define)", "(set! undefined-zz 1)",
         "(let loop-zz ((i 0)) i)", "(unless)", "(or (and (let ((q (cdr '()))) q)))", "(1 2 3)", "(apply car '(1 2))", "(map car '(1 2))", "(quote)", "(let () )", "#z", "(vector-set! '#(1) 0 0)",
         "(/ 1 0)", "((lambda (a b) a) 1)", "(let ((f (lambda () (car '())))) (list (f)))", "(cond (#t => car))", "(case 1 ((1) => (lambda () 0)))"]


# a macro definition that is REJECTED (it stands where only an expression or an internal definition may stand) for the bundled keywords and some builtins: it
# must not change what these names mean afterwards; and definitions / assignments whose value expression fails: the name keeps what it had
for _kw in ("unless", "when", "cond", "case", "and", "or", "let", "let*", "begin", "car", "list", "+"):
    _m = "(define-syntax %s (syntax-rules () ((%s x ...) 'aged-macro)))" % (_kw, _kw)
    AGING += ["(lambda () %s 1)" % _m, "(define (zz-aged) %s 1)" % _m, "(if %s 1 2)" % _m, "((lambda (zz-a) %s zz-a) 1)" % _m, "(vector %s)" % _m]
AGING += ["(define car (vector-ref (vector) 0))", "(define list (undefined-zz))", "(set! cons (car '()))", "(set! undefined-zz2 (car '()))", "(define (zz-aged2 . r))", "(define + (+ 'a 1))",
          "(define zz-aged3 (zz-aged3))", "(set! zz-aged4 1)", "(define vector (let ((a)) a))"]


def aging(rng, n):
    """n source texts that each end in an error (syntax errors inside derived forms, failed expansions, run-time faults at several nesting depths,
    failed imports) and change nothing a program can observe; evaluated on an interpreter before the judged program"""
    out = []
    for _ in range(n):
        if rng.random() < 0.5:
            out.append(rng.choice(AGING))
        else:
            # a fault met under 3-12 nested calls and derived forms: every enclosing call is abandoned half way
            e = rng.choice(["(car '())", "(undefined-zz)", "(vector-ref (vector) 1)", "(/ 1 0)", "(5 5)", "(let ((a)) a)", "((lambda (x) x))"])
            for _k in range(rng.randint(3, 12)):
                e = rng.choice(["(list 1 %s)", "(+ 1 %s)", "(vector %s 2)", "((lambda (q) q) %s)", "(let ((w %s)) w)", "(if #t %s 0)", "(begin 1 %s)", "(cons %s '())", "(and 1 %s)", "(cond (#f 0) (else %s))"]) % e
            out.append(e)
    return out


# ------------------------------------------------------------------ the same object in several argument positions; odd library names
def shared_object_calls(rng, names):
    """builtins applied to arguments among which one object occurs twice or inside another argument"""
    pre = "(define zv (vector 1 2 3)) (define zl (list 1 2 3)) (define (zp . a) a) (define zc (list zv zv))"
    pool = ["zv", "zv", "zl", "zc", "zp", "(list 0 zv)", "(vector zv)", "(cons zv zv)", "0", "1", "'a", "(vector-ref zv 0)"]
    forms = [pre]
    for _ in range(rng.randint(2, 6)):
        forms.append("(%s %s)" % (rng.choice(names), " ".join(rng.choice(pool) for _ in range(rng.randint(1, 4)))))
    return tame(" ".join(forms))


STRUCTURE_BUILTINS = ["vector-set!", "vector-ref", "vector-length", "make-vector", "vector", "list-tail", "list-ref", "append", "memv", "memq", "equal?", "eqv?", "eq?", "apply", "map",
                      "for-each", "fold-left", "fold-right", "cons", "car", "cdr", "list", "display", "last-pair", "list?", "make-list"]


def shared_object_sweep():
    """every structure builtin on every argument tuple of length <= 3 over five objects, one of which (a vector) also occurs inside two others"""
    import itertools
    pre = "(define zv (vector 1 2 3)) (define zl (list 1 2 3)) (define (zp . a) a)"
    pool = ["zv", "(list 0 zv)", "zl", "0", "zp"]
    out = []
    for b in STRUCTURE_BUILTINS:
        calls = ["(%s %s)" % (b, " ".join(t)) for k in (1, 2, 3) for t in itertools.product(pool, repeat=k)]
        for i in range(0, len(calls), 12):
            out.append(tame(pre + " " + " ".join(calls[i:i + 12])))
    return out


def odd_imports(rng):
    """import declarations whose library names are unusual as file names"""
    part = lambda: rng.choice(["..", ".", "|/|", "||", "|a/b|", "|../x|", "a", "util", "scheme", "base", "0", "1", "|.sld|", "|a b|", "...", "|\\\\|", "|..|", "-", "|~|", "|con|", "|a.b.c|", "x.y"])
    name = "(%s)" % " ".join(part() for _ in range(rng.randint(0, 3)))
    wrap = rng.choice(["%s", "(only %s car)", "(prefix %s p-)", "(except %s)", "(rename %s (a b))", "%s %s"])
    decl = "(import %s)" % (wrap.replace("%s", name))
    return rng.choice(["%s", "%s (car '(1))", "(define-library (odd lib) (import %s) (export) (begin)) 1".replace("(import %s)", decl) if False else "%s"]) % decl

"""Type-directed generator of terminating programs over the core forms (C01), with equivalent spellings.

Types: int, bool, sym, lint (proper list of ints), fn(k fixed int params [+ rest]) -> int, hof (fn, int) -> int,
maker int -> fn(1).  Every generated program is filtered through the reference model: programs that raise an error or
leave the modelled subset are discarded, so what remains is valid and terminating by construction."""
from .sx import Sym, S, Dot, Vec, RatLit, show, q


class FnT:
    def __init__(self, fixed, rest=False, kind="fn"):
        self.fixed, self.rest, self.kind = fixed, rest, kind   # kind: fn | hof | maker


class G:
    def __init__(self, rng, ticks=True, derived=False, max_depth=5):
        self.rng = rng
        self.tickn = 0
        self.ticks = ticks
        self.derived = derived      # allow derived forms inside expressions (C05 uses its own generator; C01 keeps core only)
        self.max_depth = max_depth
        self.names = 0

    def fresh(self, prefix="v"):
        self.names += 1
        return "%s%d" % (prefix, self.names)

    def tick(self, e):
        if self.ticks and self.rng.random() < 0.35:
            self.tickn += 1
            return [S("tick"), self.tickn, e]
        return e

    # ------------------------------------------------------------ expressions
    def vars_of(self, env, ty):
        return [n for n, t in env if t == ty]

    def fns(self, env, kind="fn"):
        return [(n, t) for n, t in env if isinstance(t, FnT) and t.kind == kind]

    def int_(self, d, env):
        r = self.rng
        c = r.random()
        vs = self.vars_of(env, "int")
        if d <= 0 or c < 0.18:
            if vs and r.random() < 0.6:
                return S(r.choice(vs))
            if r.random() < 0.06:
                # the same integer written as a ratio that is not in lowest terms (6/3, -8/4), bare or quoted
                k, m = r.randint(-9, 20), r.randint(2, 6)
                return r.choice([RatLit(k * m, m), q(RatLit(k * m, m))])
            return r.randint(-9, 20)
        if c < 0.34:
            return self.tick([S(r.choice(["+", "-", "+", "*"])), self.int_(d - 1, env), self.int_(d - 1, env)])
        if c < 0.46:
            return [S("if"), self.test(d - 1, env), self.int_(d - 1, env), self.int_(d - 1, env)]
        if c < 0.62:
            return self.call(d, env)
        if c < 0.70:
            # immediate lambda application, possibly shadowing
            k = r.randint(0, 3)
            ps = [r.choice(vs) if (vs and r.random() < 0.3) else self.fresh("p") for _ in range(k)]
            ps = list(dict.fromkeys(ps))
            env2 = env + [(p, "int") for p in ps]
            return [[S("lambda"), [S(p) for p in ps], self.int_(d - 1, env2)]] + [self.tick(self.int_(d - 1, env)) for _ in ps]
        if c < 0.78:
            L = self.lint(d - 1, env)
            return r.choice([
                [[S("lambda"), [S("zl")], [S("if"), [S("pair?"), S("zl")], [S("car"), S("zl")], self.int_(0, env)]], L],
                [S("apply"), S("+"), L],
                [S("fold-left"), S("+"), self.int_(0, env), L],
            ])
        if c < 0.84:
            return self.tick(self.int_(d - 1, env))
        if c < 0.90 and self.fns(env, "hof"):
            h, _ = r.choice(self.fns(env, "hof"))
            return self.mkcall(S(h), [self.fn1(d - 1, env), self.tick(self.int_(d - 1, env))])
        if c < 0.95:
            # call of a procedure value computed on the spot
            return [self.fn1(d - 1, env), self.tick(self.int_(d - 1, env))]
        return [S("vector-ref"), [S("vector"), self.int_(d - 1, env), self.int_(d - 1, env)], r.randint(0, 1)]

    def test(self, d, env):
        """a test expression for `if`: boolean or any other value (only #f is false)"""
        r = self.rng
        c = r.random()
        if c < 0.55:
            return self.bool_(d, env)
        return r.choice([0, q([]), "", q(S("nil")), self.int_(min(d, 1), env), q([1]), S("car"), Vec([])])

    def bool_(self, d, env):
        r = self.rng
        c = r.random()
        vs = self.vars_of(env, "bool")
        if d <= 0 or c < 0.2:
            if vs and r.random() < 0.5:
                return S(r.choice(vs))
            return r.random() < 0.5
        if c < 0.6:
            return [S(r.choice(["=", "<", ">", "<=", ">="])), self.int_(d - 1, env), self.int_(d - 1, env)]
        if c < 0.7:
            return [S("not"), self.test(d - 1, env)]
        if c < 0.85:
            return [S(r.choice(["null?", "pair?"])), self.lint(d - 1, env)]
        return self.tick([S("eq?"), self.sym(d - 1, env), self.sym(d - 1, env)])

    def sym(self, d, env):
        r = self.rng
        if d > 0 and r.random() < 0.3:
            return [S("if"), self.test(d - 1, env), self.sym(d - 1, env), self.sym(d - 1, env)]
        return q(S(r.choice(["a", "b", "c"])))

    def lint(self, d, env):
        r = self.rng
        c = r.random()
        vs = self.vars_of(env, "lint")
        if d <= 0 or c < 0.25:
            if vs and r.random() < 0.6:
                return S(r.choice(vs))
            if r.random() < 0.1:
                return q([(lambda k, m: RatLit(k * m, m))(r.randint(-5, 9), r.randint(2, 5)) if r.random() < 0.5 else r.randint(-5, 9) for _ in range(r.randint(1, 4))])
            return q([r.randint(-5, 9) for _ in range(r.randint(0, 4))])
        if c < 0.45:
            return [S("list")] + [self.tick(self.int_(d - 1, env)) for _ in range(r.randint(0, 3))]
        if c < 0.6:
            return [S("cons"), self.int_(d - 1, env), self.lint(d - 1, env)]
        if c < 0.72:
            return [S("map"), self.fn1(d - 1, env), self.lint(d - 1, env)]
        if c < 0.82:
            return [S("append"), self.lint(d - 1, env), self.lint(d - 1, env)]
        if c < 0.9:
            return [S("if"), self.test(d - 1, env), self.lint(d - 1, env), self.lint(d - 1, env)]
        return [[S("lambda"), S("zr"), S("zr")]] + [self.tick(self.int_(d - 1, env)) for _ in range(r.randint(0, 3))]

    def fn1(self, d, env):
        """an expression whose value is a procedure of one int -> int"""
        r = self.rng
        c = r.random()
        cands = [n for n, t in self.fns(env) if t.fixed == 1 or (t.fixed <= 1 and t.rest)]
        if cands and c < 0.35:
            return S(r.choice(cands))
        mk = self.fns(env, "maker")
        if mk and c < 0.55:
            return self.mkcall(S(r.choice(mk)[0]), [self.int_(max(0, d - 1), env)])
        p = self.fresh("x")
        return [S("lambda"), [S(p)], self.int_(max(0, d - 1), env + [(p, "int")])]

    def call(self, d, env):
        r = self.rng
        fs = self.fns(env)
        if not fs:
            return [S("+"), self.int_(d - 1, env), 1]
        name, t = r.choice(fs)
        n = t.fixed + ((r.randint(0, 3) if r.random() > 0.05 else r.choice([12, 40])) if t.rest else 0)
        args = [self.tick(self.int_(d - 1 if n < 8 else 0, env)) for _ in range(n)]
        op = S(name)
        if r.random() < 0.1:
            # the operator is itself an expression, evaluated once like the operands
            self.tickn += 1
            op = r.choice([[S("tick"), self.tickn, S(name)], [S("if"), [S("tick"), self.tickn, True], S(name), S("car")], [[S("lambda"), [], [S("tick"), self.tickn, S(name)]]]]) if self.ticks else [S("if"), True, S(name), S("car")]
        return self.mkcall(op, args)

    def mkcall(self, f, args):
        return Call(f, args)

    # ------------------------------------------------------------ definitions
    def procedure(self, env, name=None):
        """(name, type, abstract definition)"""
        r = self.rng
        name = name or self.fresh("f")
        kind = r.random()
        if kind < 0.12:
            # maker: int -> closure (captures its argument and a local)
            a, x = self.fresh("a"), self.fresh("x")
            body = [S("lambda"), [S(x)], self.int_(2, env + [(a, "int"), (x, "int")])]
            return name, FnT(1, False, "maker"), Proc(name, [a], None, [], [body])
        if kind < 0.22:
            g, x = self.fresh("g"), self.fresh("x")
            env2 = env + [(g, FnT(1)), (x, "int")]
            return name, FnT(2, False, "hof"), Proc(name, [g, x], None, [], [self.int_(3, env2)])
        if kind < 0.36:
            # recursion on a decreasing counter (tail or not)
            n, acc = self.fresh("n"), self.fresh("acc")
            env2 = env + [(n, "int"), (acc, "int")]
            step = self.int_(1, env2)
            if r.random() < 0.5:
                body = [S("if"), [S("<="), S(n), 0], S(acc), Call(S(name), [[S("-"), S(n), 1], [S("+"), S(acc), step]])]
            else:
                body = [S("if"), [S("<="), S(n), 0], S(acc), [S("+"), step, Call(S(name), [[S("-"), S(n), 1], S(acc)])]]
            return name, FnT(2, False, "rec"), Proc(name, [n, acc], None, [], [body])
        k = r.randint(0, 5) if r.random() > 0.03 else r.choice([9, 16, 24])        # now and then a long parameter list
        ps = [self.fresh("p") for _ in range(k)]
        if ps and r.random() < 0.08:
            # a parameter named like a builtin or like a keyword of a derived form: it shadows that name inside the body only
            ps[r.randrange(len(ps))] = r.choice(["list", "vector", "not", "max", "min", "abs", "cons", "temp", "x", "else", "when"])
        rest = self.fresh("r") if r.random() < 0.4 else None
        env2 = env + [(p, "int") for p in ps] + ([(rest, "lint")] if rest else [])
        defs = []
        if r.random() < 0.4:
            for _ in range(r.randint(1, 2)):
                v = self.fresh("k")
                defs.append([S("define"), S(v), self.int_(2, env2)])
                env2 = env2 + [(v, "int")]
        if ps and r.random() < 0.08:
            # an internal definition named like one of the procedure's own parameters (its initialiser does not mention that name): it shadows the parameter
            v = r.choice(ps)
            defs.append([S("define"), S(v), self.int_(2, [(n, t) for n, t in env2 if n != v])])
        if r.random() < 0.3:
            # two mutually referring internal procedures (visible to the whole body)
            h1, h2, x = self.fresh("h"), self.fresh("h"), self.fresh("x")
            e = env2 + [(x, "int")]
            defs.append([S("define"), [S(h1), S(x)], [S("if"), [S("<="), S(x), 0], self.int_(1, e), [S(h2), [S("-"), S(x), 1]]]])
            defs.append([S("define"), [S(h2), S(x)], [S("if"), [S("<="), S(x), 0], self.int_(1, e), [S(h1), [S("-"), S(x), 2]]]])
            env2 = env2 + [(h1, FnT(1)), (h2, FnT(1))]
        nbody = r.randint(1, 2)
        body = [self.tick(self.int_(3, env2)) for _ in range(nbody)]
        return name, FnT(k, rest is not None), Proc(name, ps, rest, defs, body)

    def scenario(self, env):
        """frame-sharing stress: closures escaping from parameters, rest parameters, internal definitions and loop
        iterations are called later, after further calls of the same procedure; parameters shadow globals."""
        r = self.rng
        gi = self.vars_of(env, "int")
        k = r.randrange(15)
        f, g = self.fresh("sf"), self.fresh("sg")
        n = S(self.fresh("n")) if not gi or r.random() < 0.5 else S(r.choice(gi))      # a parameter that may shadow a global
        acc, x = S(self.fresh("acc")), S(self.fresh("x"))
        a1, a2, a3 = r.randint(0, 4), r.randint(1, 9), r.randint(1, 9)
        forms = []
        if k == 0:
            # closures created in successive rounds of a self tail call
            fn = r.choice([[S("lambda"), [], n], [S("lambda"), [x], [S("+"), x, n]]])
            forms.append(Proc(f, [n.name, acc.name], None, [], [[S("if"), [S("<="), n, 0], acc, Call(S(f), [[S("-"), n, 1], [S("cons"), fn, acc]])]]))
            arg = [] if len(fn[1]) == 0 else [a2]
            forms.append([S("map"), [S("lambda"), [S("t")], [S("t")] + arg], Call(S(f), [a1, q([])])])
        elif k == 1:
            # internal procedure capturing the loop variable, collected over a tail loop
            forms.append(Proc(f, [n.name, acc.name], None, [[S("define"), [S("kk")], [S("*"), n, 2]]],
                              [[S("if"), [S("<="), n, 0], acc, Call(S(f), [[S("-"), n, 1], [S("cons"), S("kk"), acc]])]]))
            forms.append([S("map"), [S("lambda"), [S("t")], [S("t")]], Call(S(f), [a1, q([])])])
        elif k == 2:
            # rest-only procedure, its rest list read again after an inner call of itself
            forms.append(Proc(f, [], "r", [], [[S("if"), [S("null?"), S("r")], a3, [S("+"), [S("apply"), S(f), [S("cdr"), S("r")]], [S("car"), S("r")]]]]))
            forms.append(Call(S(f), [self.tick(r.randint(0, 9)) for _ in range(r.randint(0, 4))]))
            forms.append(Call(S(f), [r.randint(0, 9) for _ in range(r.randint(0, 3))]))
        elif k == 3:
            # closures keeping a rest list / a parameter; two instances alive at once
            rest_only = r.random() < 0.5
            if rest_only:
                forms.append(Proc(f, [], "r", [], [[S("lambda"), [], S("r")]]))
                c1, c2 = Call(S(f), [a1, a2]), Call(S(f), [a3])
                use = lambda kk: [S(kk)]
            else:
                forms.append(Proc(f, [n.name], "r", [], [[S("lambda"), [x], [S("+"), n, x, [S("apply"), S("+"), S("r")]]]]))
                c1, c2 = Call(S(f), [a1, a2]), Call(S(f), [a3, 1, 2])
                use = lambda kk: [S(kk), a2]
            k1, k2 = self.fresh("k"), self.fresh("k")
            forms += [[S("define"), S(k1), c1], [S("define"), S(k2), c2], use(k1), use(k2), use(k1)]
        elif k == 4:
            # a rest parameter named like a global list; the global is read afterwards
            gname = self.fresh("gr")
            forms.append([S("define"), S(gname), q([7, 8])])
            forms.append(Proc(f, [], gname, [], [[S("apply"), S("+"), a1, S(gname)]]))
            forms += [Call(S(f), [a2, a3]), S(gname), Call(S(f), []), S(gname)]
        elif k == 5:
            # zero-parameter procedure with internal definitions called repeatedly; earlier closure stays live
            forms.append(Proc(f, [], None, [[S("define"), S("cnt"), a1], [S("define"), [S("get")], S("cnt")]], [S("get")]))
            k1, k2 = self.fresh("k"), self.fresh("k")
            forms += [[S("define"), S(k1), Call(S(f), [])], [S("define"), S(k2), Call(S(f), [])], [S(k1)], [S(k2)], [S("eq?"), [S(k1)], [S(k2)]]]
        elif k == 6:
            # parameter shadows a global that the body's helper still reads
            if gi:
                gv = r.choice(gi)
                forms.append(Proc(g, [], None, [], [S(gv)]))
                forms.append(Proc(f, [gv], None, [], [[S("+"), S(gv), Call(S(g), [])]]))
                forms += [Call(S(f), [a2]), S(gv)]
                # ... and the same with the helper called in tail position (directly and behind an if)
                f2, f3 = self.fresh("sf"), self.fresh("sf")
                forms.append(Proc(f2, [gv], None, [], [[S(g)]]))
                forms.append(Proc(f3, [gv], None, [[S("define"), S("kk"), [S("+"), S(gv), 1]]], [[S("if"), [S(">"), S("kk"), 0], [S(g)], 0]]))
                forms += [[S(f2), a3], [S(f3), a2], S(gv)]
            else:
                forms.append(a1)
        elif k == 7:
            # mutual tail recursion carrying closures
            forms.append(Proc(f, [n.name, acc.name], None, [], [[S("if"), [S("<="), n, 0], acc, Call(S(g), [[S("-"), n, 1], [S("cons"), [S("lambda"), [], [S("*"), n, 10]], acc]])]]))
            forms.append(Proc(g, [n.name, acc.name], None, [], [[S("if"), [S("<="), n, 0], acc, Call(S(f), [[S("-"), n, 1], [S("cons"), [S("lambda"), [], [S("+"), n, 1]], acc]])]]))
            forms.append([S("map"), [S("lambda"), [S("t")], [S("t")]], Call(S(f), [a1 + 1, q([])])])
        elif k == 9:
            # internal definitions of a parameterless procedure named like variables of the enclosing scope: the outer ones stay untouched
            gv = r.choice(gi) if gi else self.fresh("gs")
            if not gi:
                forms.append([S("define"), S(gv), a1])
            forms.append(Proc(f, [], None, [[S("define"), S(gv), [S("+"), 100, a2]], [S("define"), [S("inner")], [S("*"), S(gv), 2]]], [[S("list"), S(gv), [S("inner")]]]))
            forms += [Call(S(f), []), S(gv), Call(S(f), []), S(gv)]
        elif k == 10:
            # the same for a procedure with only a rest parameter called without arguments, and for a thunk created inside another procedure
            gv = r.choice(gi) if gi else self.fresh("gs")
            if not gi:
                forms.append([S("define"), S(gv), a1])
            forms.append(Proc(f, [n.name], None, [], [[[S("lambda"), [], [S("define"), S(n.name), [S("+"), n, 50]], n]], [S("+"), n, 1]]))
            forms.append(Proc(g, [], gv, [], [[S("cons"), a3, S(gv)]]))
            forms += [Call(S(f), [a2]), Call(S(g), []), S(gv), Call(S(g), [1, 2]), S(gv)]
        elif k == 13:
            # an internal definition bound to a closure made ELSEWHERE, next to a closure of this frame that escapes (returned, or an internal procedure returned by name)
            mk, qn, y = self.fresh("mk"), self.fresh("q"), S(self.fresh("y"))
            forms.append(Proc(mk, [n.name], None, [], [[S("lambda"), [x], [S("+"), x, n]]]))
            if r.random() < 0.5:
                forms.append(Proc(f, [acc.name], None, [[S("define"), S(qn), Call(S(mk), [a2])]], [[S("lambda"), [y], [S("+"), [S(qn), y], acc]]]))
            else:
                forms.append(Proc(f, [acc.name], None, [[S("define"), S(qn), Call(S(mk), [a2])], [S("define"), [S("hh"), y], [S("+"), [S(qn), y], acc]]], [S("hh")]))
            k1, k2 = self.fresh("k"), self.fresh("k")
            forms += [[S("define"), S(k1), Call(S(f), [a1])], [S("define"), S(k2), Call(S(f), [a3])], [S(k1), self.tick(5)], [S(k2), 7], [S(k1), 1]]
        elif k == 14:
            # a procedure with internal definitions stores a closure of its frame into a vector it was given / into a global, and returns something else
            slots, keep = self.fresh("slots"), self.fresh("keep")
            forms.append([S("define"), S(slots), [S("vector"), 0, 0]])
            forms.append([S("define"), S(keep), False])
            forms.append(Proc(f, ["i", acc.name], None, [[S("define"), S("tot"), acc], [S("define"), [S("bump"), x], [S("+"), S("tot"), x]]],
                              [[S("vector-set!"), S(slots), S("i"), [S("lambda"), [x], [S("bump"), [S("*"), x, 2]]]], [S("set!"), S(keep), S("bump")], S("i")]))
            forms += [Call(S(f), [0, a2]), Call(S(f), [1, a3]), [[S("vector-ref"), S(slots), 0], 3], [[S("vector-ref"), S(slots), 1], self.tick(4)], [S(keep), 5]]
        elif k == 11:
            # a chain of closures of ONE lambda expression over different environments, each tail-calling the next directly
            nxt = S(self.fresh("next"))
            step = self.tick([S("+"), x, n])
            forms.append(Proc(f, [n.name, nxt.name], None, [], [[S("lambda"), [x], [S("if"), nxt, [nxt, step], [S("list"), x, n]]]]))
            links = [self.fresh("c") for _ in range(r.randint(3, 5))]
            prev = False
            for i, c in enumerate(links):
                forms.append([S("define"), S(c), Call(S(f), [r.randint(1, 9) * 10 ** (i % 3), prev])])
                prev = S(c)
            forms += [[S(links[-1]), a1], [S(links[1]), a2], [S(links[-1]), a3]]
            if r.random() < 0.5:
                # entered by a tail call from another procedure
                forms.append(Proc(g, [x.name], None, [], [[S(links[-1]), x]]))
                forms.append(Call(S(g), [a2]))
        elif k == 12:
            # continuation-passing accumulators: every continuation is a closure of the same lambda and tail-calls the one it closes over
            kk, v = S(self.fresh("k")), S(self.fresh("v"))
            forms.append(Proc(f, [n.name, kk.name], None, [], [[S("lambda"), [v], [kk, self.tick([S("+"), [S("*"), v, 2], n])]]]))
            e = [S("lambda"), [v], v]
            for i in range(r.randint(2, 4)):
                e = Call(S(f), [r.randint(1, 9), e])
            c = self.fresh("c")
            forms += [[S("define"), S(c), e], [S(c), a1], [S(c), a2]]
        else:
            # non-tail recursion whose frame variables are read after the inner call returns
            forms.append(Proc(f, [n.name], "r", [], [[S("if"), [S("<="), n, 0], [S("apply"), S("+"), 0, S("r")],
                                                     [S("+"), Call(S(f), [[S("-"), n, 1], n]), n, [S("apply"), S("+"), S("r")]]]]))
            forms.append(Call(S(f), [a1, a2, a3]))
        return forms

    def program(self):
        """list of abstract top-level forms"""
        r = self.rng
        env, forms = [], []
        for _ in range(r.randint(3, 8)):
            c = r.random()
            if c < 0.22:
                forms += self.scenario(env)
                continue
            c = r.random()
            if c < 0.2:
                v = self.fresh("g")
                forms.append([S("define"), S(v), self.int_(2, env)]); env.append((v, "int"))
            elif c < 0.28:
                v = self.fresh("gl")
                forms.append([S("define"), S(v), self.lint(2, env)]); env.append((v, "lint"))
            elif c < 0.33:
                v = self.fresh("gb")
                forms.append([S("define"), S(v), self.bool_(2, env)]); env.append((v, "bool"))
            elif c < 0.7:
                name, t, p = self.procedure(env)
                forms.append(p)
                if t.kind == "rec":
                    # only called with a small literal counter
                    forms.append(Call(S(name), [r.randint(0, 6), self.int_(1, env)]))
                else:
                    env.append((name, t))
            else:
                forms.append(self.int_(self.max_depth, env) if r.random() < 0.8 else self.lint(3, env))
        forms.append(self.int_(self.max_depth, env))
        return forms


class Call:
    """abstract call of a (possibly user) procedure: rendered directly or through apply"""
    __slots__ = ("f", "args")

    def __init__(self, f, args):
        self.f, self.args = f, args


class Proc:
    """abstract top-level procedure definition"""
    __slots__ = ("name", "params", "rest", "defs", "body")

    def __init__(self, name, params, rest, defs, body):
        self.name, self.params, self.rest, self.defs, self.body = name, params, rest, defs, body


SPELLINGS = ["plain", "lambda", "apply", "restargs"]


def render(x, sp, rng=None):
    """abstract form -> sx AST under a spelling"""
    if isinstance(x, Call):
        f = render(x.f, sp); args = [render(a, sp) for a in x.args]
        if sp == "apply":
            # 0-3 arguments written before the final list (deterministic per call site)
            k = min(len(args), (len(show(f)) + len(args)) % 4)
            return [S("apply"), f] + args[:k] + [[S("list")] + args[k:]]
        return [f] + args
    if isinstance(x, Proc):
        body = [render(d, sp) for d in x.defs] + [render(b, sp) for b in x.body]
        ps = [S(p) for p in x.params]
        formals = Dot(ps, S(x.rest)) if (x.rest and ps) else (S(x.rest) if x.rest else ps)
        if sp == "lambda":
            return [S("define"), S(x.name), [S("lambda"), formals] + body]
        if sp == "restargs" and not x.rest:
            return [S("define"), Dot([S(x.name)], S("zargs")), [S("apply"), [S("lambda"), formals] + body, S("zargs")]]
        if isinstance(formals, list):
            return [S("define"), [S(x.name)] + formals] + body
        if isinstance(formals, Dot):
            return [S("define"), Dot([S(x.name)] + formals.items, formals.tail)] + body
        return [S("define"), Dot([S(x.name)], formals)] + body
    if isinstance(x, list):
        if len(x) == 2 and x[0] == S("quote"):
            return x
        return [render(e, sp) for e in x]
    return x

"""C02 - tail calls run in bounded space.
Monitor: (probe n) is called once per iteration of generated loops whose recursive call sits in a composition of tail
contexts; the driver records the real machine stack depth and the live-heap byte count at every call.  Invariant: after
warm-up both are flat; the loop's result equals the closed form."""
import itertools, json
from . import core

PID = "C02"
LEVEL = "exploration"

# tail contexts: T is the tail expression; each wrapper keeps T in tail position and always selects it (n > 0 there)
CONTEXTS = {
    "if-then": "(if (> n 0) {T} 'never)",
    "if-else": "(if (= n -1) 'never {T})",
    "begin": "(begin 1 {T})",
    "let": "(let ((u 1)) {T})",
    "let*": "(let* ((u 1) (w u)) {T})",
    # bindings whose values are procedures (made outside the frame that receives them: no frame refers to itself)
    "let-proc": "(let ((u (lambda () n))) {T})",
    "let*-proc": "(let* ((u 1) (w (lambda () u)) (v (lambda (k) (w)))) {T})",
    "cond-clause": "(cond ((= n -1) 'never) ((> n 0) {T}) (else 'never))",
    "cond-else": "(cond ((= n -1) 'never) (else {T}))",
    "cond-arrow": "(cond ((= n -1) 'never) ((> n 0) => (lambda (hit) {T})) (else 'never))",
    "case-clause": "(case (if (> n 0) 1 2) ((7 8) 'never) ((1) {T}) (else 'never))",
    "case-else": "(case 5 ((7 8) 'never) (else {T}))",
    "case-arrow": "(case (if (> n 0) 1 2) ((7) 'never) ((1) => (lambda (key) {T})) (else 'never))",
    "and": "(and #t n {T})",
    "or": "(or #f (= n -1) {T})",
    "when": "(when (> n 0) 1 {T})",
    "unless": "(unless (= n -1) 1 {T})",
    "apply": "(apply (lambda () {T}) '())",
}
NAMES = list(CONTEXTS)


def wrap(path, T):
    for c in reversed(path):
        T = CONTEXTS[c].replace("{T}", T)
    return T


def make_loop(shape, path, via_apply=False):
    """returns (definitions, call template with {N}); result must be N"""
    def call(f, *args):
        if via_apply == "apply-apply":
            # apply handed to apply, and apply arriving through a variable
            return "(apply apply %s (list (list %s)))" % (f, " ".join(args))
        if via_apply == "apply-var":
            return "((lambda (call) (call call (list %s (list %s)))) apply)" % (f, " ".join(args))
        if via_apply:
            return "(apply %s (list %s))" % (f, " ".join(args))
        return "(%s %s)" % (f, " ".join(args))
    W = lambda T: wrap(path, T)
    if shape == "self":
        d = ["(define (lp n acc) (if (= (probe n) 0) acc %s))" % W(call("lp", "(- n 1)", "(+ acc 1)"))]
        return d, "(lp {N} 0)"
    if shape == "mutual2":
        d = ["(define (lpa n acc) (if (= (probe n) 0) acc %s))" % W(call("lpb", "(- n 1)", "(+ acc 1)")),
             "(define (lpb n acc) (if (= (probe n) 0) acc %s))" % W(call("lpa", "(- n 1)", "(+ acc 1)"))]
        return d, "(lpa {N} 0)"
    if shape == "mutual3":
        d = ["(define (lpa n acc) (if (= (probe n) 0) acc %s))" % W(call("lpb", "(- n 1)", "(+ acc 1)")),
             "(define (lpb n acc) (if (= (probe n) 0) acc %s))" % W(call("lpc", "(- n 1)", "(+ acc 1)")),
             "(define (lpc n acc) (if (= (probe n) 0) acc %s))" % W(call("lpa", "(- n 1)", "(+ acc 1)"))]
        return d, "(lpa {N} 0)"
    if shape == "higher-order":
        d = ["(define (lp self n acc) (if (= (probe n) 0) acc %s))" % W(call("self", "self", "(- n 1)", "(+ acc 1)"))]
        return d, "(lp lp {N} 0)"
    if shape == "variadic":
        d = ["(define (lp n . rest) (if (= (probe n) 0) (car rest) %s))" % W(call("lp", "(- n 1)", "(+ (car rest) 1)", "'pad"))]
        return d, "(lp {N} 0)"
    if shape == "closure-returned":
        d = ["(define (make) (define (lp n acc) (if (= (probe n) 0) acc %s)) lp)" % W(call("lp", "(- n 1)", "(+ acc 1)")),
             "(define lp2 (make))"]
        return d, "(lp2 {N} 0)"
    if shape == "internal-var":
        d = ["(define (lp n acc) (define k (+ acc 1)) (if (= (probe n) 0) acc %s))" % W(call("lp", "(- n 1)", "k"))]
        return d, "(lp {N} 0)"
    if shape == "internal-proc":
        d = ["(define (lp n acc) (define (k) (+ acc 1)) (if (= (probe n) 0) acc %s))" % W(call("lp", "(- n 1)", "(k)"))]
        return d, "(lp {N} 0)"
    if shape == "closure-pair":
        # two closures of ONE lambda expression over different environments (step 1 and step 2) tail-call each other
        d = ["(define (mk step) (lambda (n acc me peer) (if (= (probe n) 0) acc %s)))" % W(call("peer", "(- n 1)", "(+ acc step)", "peer", "me")),
             "(define pa (mk 1))", "(define pb (mk 2))"]
        return d, "(pa {N} 0 pa pb)"
    if shape == "closure-ring":
        # three closures of one lambda, each knowing only its successor through its environment
        d = ["(define (mk step) (define next #f) (list (lambda (n acc) (if (= (probe n) 0) acc %s)) (lambda (p) (set! next p))))" % W(call("next", "(- n 1)", "(+ acc step)")),
             "(define r1 (mk 1))", "(define r2 (mk 2))", "(define r3 (mk 4))",
             "((cadr r1) (car r2))", "((cadr r2) (car r3))", "((cadr r3) (car r1))"]
        return d, "((car r1) {N} 0)"
    if shape == "foreign-internal":
        # a loop driven by returned thunks: each round's body defines an internal variable bound to a closure made elsewhere and returns a closure of its own frame
        d = ["(define (adder k) (lambda (x) (+ x k)))",
             "(define (step n acc) (define add1 (adder 1)) (if (= (probe n) 0) acc (lambda () %s)))" % W(call("step", "(- n 1)", "(add1 acc)")),
             "(define (drive t) (if (procedure? t) (drive (t)) t))"]
        return d, "(drive (step {N} 0))"
    if shape == "operator-expression":
        # the operator of the tail call is itself a compound expression: a conditional, an element of a vector, the result of a call
        d = ["(define optable (vector #f))", "(define (pickop) lp)",
             "(define (lp n acc) (if (= (probe n) 0) acc %s))" % W(call("%s", "(- n 1)", "(+ acc 1)")),
             "(vector-set! optable 0 lp)"]
        ops = ["(if (> n 0) lp car)", "(vector-ref optable 0)", "(pickop)", "((lambda () lp))", "(car (list lp))"]
        d[2] = d[2] % ops[(len(path) + sum(map(len, path))) % len(ops)]
        return d, "(lp {N} 0)"
    if shape == "drain":
        # the iteration is driven by an effectful test in a cond => clause that is not the last one: one item is taken per round
        d = ["(define q 0)", "(define (take!) (if (> q 0) (begin (set! q (- q 1)) (+ q 1)) #f))",
             "(define (lp acc) (cond ((take!) => (lambda (n) (if (= (probe n) -1) 'never %s))) ((= q -5) 'never) (else acc)))" % W(call("lp", "(+ acc 1)"))]
        return d, "(begin (set! q {N}) (lp 0))"
    raise ValueError(shape)


def expected(shape, N):
    """closed form of the loop's result"""
    if shape == "closure-pair":
        return (N + 1) // 2 * 1 + N // 2 * 2
    if shape == "closure-ring":
        return sum((1, 2, 4)[i % 3] for i in range(N))
    return N


SHAPES = ["self", "mutual2", "mutual3", "higher-order", "variadic", "closure-returned", "internal-var", "internal-proc", "closure-pair", "closure-ring", "drain", "foreign-internal", "operator-expression"]


def judge(ctx, case, rec, leg):
    shape, path, via_apply, N = case["shape"], case["path"], case["via_apply"], case["N"]
    has_apply = bool(via_apply) or ("apply" in path)
    base = {"shape": shape, "ctx_path": "/".join(path) or "-", "via_apply": via_apply, "has_apply": has_apply, "N": N, "leg": leg}
    if case.get("aged"):
        base["after_failed_evaluations"] = case["aged"]
    key = "%s|%s|%s" % (shape, "/".join(path), via_apply)
    if rec is None or "steps" not in rec:
        if rec and "abort" in rec:
            oom = "memory allocation of" in (rec["abort"].get("stderr") or "")
            d = dict(base, kind="heap" if oom else "abort", what="process ran out of memory while running a tail loop" if oom else "process died while running a tail loop (stack exhausted?)",
                     abort=rec["abort"], dedupe=key if shape != "internal-proc" else "internal-proc")
            ctx.violation(d, {"case": case})
        else:
            ctx.inconclusive_cases += 1
        return
    steps = rec["steps"][case.get("aged", 0):]
    if case.get("aged"):
        ctx.count("loops_on_aged_interpreters")
    for s in steps[:-1]:
        k, v = core.outcome(s)
        if k != "ok":
            ctx.violation(dict(base, kind="define", what="loop definition failed", observed=s), {"case": case}); return
    last = steps[-1]
    k, v = core.outcome(last)
    pr = last.get("probes")
    ctx.evaluations += 1
    ctx.nontriv(key)
    if pr:
        ctx.count("probe_samples", pr["n"])
        drift = pr["stack_max"] - pr["stack_min"]
        if drift > 1024:
            per = drift / max(1, pr["n"] - 3)
            ctx.violation(dict(base, kind="stack", what="machine stack grows with the iteration count in a tail loop",
                               stack_drift_bytes=drift, bytes_per_iteration=round(per, 1), samples=pr["samples"][:6], dedupe=key if not has_apply else "apply"),
                          {"case": case, "probes": pr})
            return
    if k == "fuel" or k == "err" or k == "panic":
        ctx.violation(dict(base, kind="incomplete", what="tail loop did not complete", observed={x: last.get(x) for x in ("err", "panic", "fuel_exhausted")}, dedupe=key),
                      {"case": case, "observed": last})
        return
    if k != "ok" or v != {"i": expected(shape, N)}:
        ctx.violation(dict(base, kind="result", what="loop result differs from the closed form", observed=v, expected=expected(shape, N), dedupe=key), {"case": case, "observed": last})
        return
    if not pr or pr["n"] != (N if shape == "drain" else N + 1):
        ctx.violation(dict(base, kind="samples", what="probe was not called once per iteration", got=(pr or {}).get("n"), expected=N + 1), {"case": case})
        return
    # heap: flat over the second half (slope <= 1 byte / iteration)
    growth = pr["heap_end"] - pr["heap_mid"]
    span = pr["n"] - pr["half"]
    if N >= 200 and growth > span * 1:
        ctx.violation(dict(base, kind="heap", what="live heap grows with the iteration count in a tail loop", heap_growth_bytes=growth,
                           bytes_per_iteration=round(growth / span, 1), dedupe=key if shape != "internal-proc" else "internal-proc"),
                      {"case": case, "probes": pr})
        return
    ctx.count("loops_flat")
    ctx.count("loops_flat_" + ("largeN" if N >= 200 else "smallN"))


def run(tier, seed):
    ctx = core.Ctx(PID, tier, seed, LEVEL)
    rng = ctx.rng
    paths = [()] + [(a,) for a in NAMES]
    d2 = [(a, b) for a in NAMES for b in NAMES]
    if tier == "quick":
        paths += rng.sample(d2, 40)
        bigN, legs = 4000, ["dev"]
    else:
        paths += d2
        d3 = [(a, b, c) for a in NAMES for b in NAMES for c in NAMES]
        paths += rng.sample(d3, 240)
        bigN, legs = 12000, ["dev", "release"]
    cases = []
    for path in paths:
        for shape in SHAPES:
            for via_apply in ((False, True, "apply-apply", "apply-var") if len(path) == 0 else ((False, True) if len(path) <= 1 else (False,))):
                for N in (40, bigN):
                    # the internal-procedure shape leaks (known finding KF-C02-cycle) and the leak stays in the driver process: keep its loops short
                    cases.append({"shape": shape, "path": list(path), "via_apply": via_apply, "N": min(N, 4000) if shape == "internal-proc" else N})
    if tier == "thorough":
        # a few very long loops in release
        for shape in SHAPES:
            for path in [(), ("cond-arrow", "let"), ("when", "case-clause"), ("and", "or")]:
                if shape != "internal-proc":
                    cases.append({"shape": shape, "path": list(path), "via_apply": False, "N": 200000, "only": "release"})
    # aged interpreters: the same loops after thousands of failed evaluations on the same interpreter (and thread)
    from . import gen_text
    for shape in SHAPES:
        if shape != "internal-proc":
            cases.append({"shape": shape, "path": list(rng.choice(paths)), "via_apply": False, "N": bigN, "aged": rng.choice([4000, 8000])})
    cases = core.mine(cases)
    ctx.rule = ("loops = tail-context path (every single context, %s compositions of two%s) x %d loop shapes x direct/apply call x N in {40, %d}; "
                "stack depth and live heap sampled at every iteration by a native probe. distinct_nontrivial = distinct (shape, context path, call style) "
                "loops whose probe series was judged" % ("all %d" % (len(NAMES) ** 2) if tier != "quick" else "40 sampled", ", 240 sampled of three" if tier != "quick" else "", len(SHAPES), bigN))
    ctx.assumptions = ["flat = stack drift <= 1 KiB after 3 warm-up iterations and heap slope <= 1 byte/iteration over the second half (measured: 0 on conforming loops, >= 6 KiB/iteration for a non-tail call)",
                       "'any iteration count' is sampled at the stated N only"]
    for leg in legs:
        jobs, cs = [], []
        for c in cases:
            if c.get("only") and c["only"] != leg:
                continue
            if leg == "release" and c["N"] == 40:
                continue
            defs, call = make_loop(c["shape"], c["path"], c["via_apply"])
            steps = [{"src": d} for d in defs] + [{"src": call.replace("{N}", str(c["N"]))}]
            if c.get("aged"):
                steps = [{"src": t} for t in gen_text.aging(rng, c["aged"])] + steps
            jobs.append({"id": "c02", "interps": [{"stdlib": True}], "steps": steps, "fuel": 200 * c["N"] + 20000, "stack_limit": 200 << 20})
            cs.append(c)
        recs = core.run_jobs(jobs, leg, timeout=900 if tier == "quick" else 3000, tag="c02", env_extra={"RVDRIVE_STEP_TIMEOUT_MS": "120000"})
        for c, r in zip(cs, recs):
            judge(ctx, c, r, leg)
        ctx.legs.append(leg)
        if cs:
            d, call = make_loop(cs[len(cs) // 3]["shape"], cs[len(cs) // 3]["path"], cs[len(cs) // 3]["via_apply"])
            ctx.sample({"loop": d, "call": call, "leg": leg})
    ctx.observed["contexts"] = NAMES
    ctx.observed["shapes"] = SHAPES
    return ctx.finish(min_evals=100, min_nontrivial=50)


def replay(path):
    data = json.load(open(path))
    c = data["replay"]["case"]
    defs, call = make_loop(c["shape"], c["path"], c["via_apply"])
    steps = [{"src": d} for d in defs] + [{"src": call.replace("{N}", str(c["N"]))}]
    recs = core.run_jobs([{"id": "r", "interps": [{"stdlib": True}], "steps": steps, "fuel": 200 * c["N"] + 20000}], data["violation"].get("leg", "dev"), shards=1, timeout=600)
    print("\n".join(defs)); print(call.replace("{N}", str(c["N"])))
    print(json.dumps(recs[0]["steps"][-1])[:1500])
    ctx = core.Ctx(PID, "quick", 0, LEVEL)
    judge(ctx, c, recs[0], "dev")
    return 1 if ctx.violations or ctx.known_hits else 0

"""Sanitizer legs: the same driver and workloads under AddressSanitizer (red-zone checks, cheap, large slices) and under Miri
(undefined behaviour / aliasing / uninitialised memory in the little unsafe code Ruschm and its dependencies contain: the
unsafe block of ParameterFormals::append, cell::RefCell, smallvec; precise, small slices).  One sanitizer per build.
Leak detection is off on purpose: every defined procedure forms an Rc cycle frame -> closure -> frame."""
import json, os, subprocess, time
from concurrent.futures import ThreadPoolExecutor
from . import core

ASAN_ENV = {"ASAN_OPTIONS": "detect_leaks=0:halt_on_error=1:abort_on_error=1", "RVDRIVE_MEM": "0"}


def asan_run(jobs, timeout=3000, tag="asan"):
    return core.run_jobs(jobs, "asan", timeout=timeout, tag=tag, env_extra=ASAN_ENV)


def asan_reports(recs):
    """[(job index, report text)] for jobs whose process was stopped by a sanitizer report"""
    out = []
    for i, r in enumerate(recs):
        if r and "abort" in r:
            err = r["abort"].get("stderr", "")
            if "AddressSanitizer" in err and "out of memory" not in err:
                out.append((i, err[-600:]))
    return out


def miri_run(jobs, per_process=40, processes=None, timeout=1500):
    """run jobs under `cargo +nightly miri run`; returns (records parallel to jobs, [ub reports])"""
    processes = processes or core.NCPU
    core.ensure_dirs()
    tgt = os.path.join(core.CACHE, "harness-target-miri")
    env = dict(os.environ, CARGO_NET_OFFLINE="true", CARGO_TARGET_DIR=tgt, RVDRIVE_STEP_TIMEOUT_MS="3000000",
               MIRIFLAGS="-Zmiri-disable-isolation -Zmiri-ignore-leaks")
    env.pop("RUSTFLAGS", None)
    shards = [list(range(s, len(jobs), processes)) for s in range(processes)]
    shards = [s for s in shards if s]
    recs = [None] * len(jobs)
    reports = []
    # build once (sequentially) so that the shards do not fight over the target directory lock
    b = subprocess.run(["cargo", "+nightly", "miri", "run", "-q", "--", "replcheck"], cwd=core.HARNESS, env=env, input=b"", stdout=subprocess.PIPE, stderr=subprocess.PIPE, timeout=1800)
    if b.returncode != 0 and b"Undefined Behavior" not in b.stderr:
        raise core.Inconclusive("miri build/run failed: %s" % b.stderr.decode("utf8", "replace")[-800:])

    def work(k):
        idx = shards[k]
        base = os.path.join(core.TMP, "miri-%d-%d" % (os.getpid(), k))
        with open(base + ".in", "w") as f:
            for i in idx:
                f.write(json.dumps(jobs[i]) + "\n")
        with open(base + ".in") as fi:
            try:
                p = subprocess.run(["cargo", "+nightly", "miri", "run", "-q", "--", "jobs", "--out", base + ".out", "--no-capture"], cwd=core.HARNESS, env=env, stdin=fi,
                                   stdout=subprocess.PIPE, stderr=subprocess.PIPE, timeout=timeout)
                err, rc = p.stderr.decode("utf8", "replace"), p.returncode
            except subprocess.TimeoutExpired:
                err, rc = "timeout", None
        got = []
        if os.path.exists(base + ".out"):
            for l in open(base + ".out"):
                try:
                    got.append(json.loads(l))
                except Exception:
                    break
        for f in (base + ".in", base + ".out"):
            try:
                os.remove(f)
            except OSError:
                pass
        return idx, got, err, rc
    with ThreadPoolExecutor(max_workers=len(shards)) as ex:
        for idx, got, err, rc in ex.map(work, range(len(shards))):
            for i, r in zip(idx, got):
                recs[i] = r
            if "Undefined Behavior" in err or "error: unsupported operation" in err or (rc not in (0, None) and "error:" in err):
                first_bad = idx[len(got)] if len(got) < len(idx) else None
                reports.append({"job_index": first_bad, "stderr": err[-1500:], "ub": "Undefined Behavior" in err})
    return recs, reports


def asan_leg(ctx, inputs, make_jobs, judge, per=40):
    """C07: the whole corpus under ASan"""
    jobs = make_jobs(inputs, per)
    chunks = [inputs[k:k + per] for k in range(0, len(inputs), per)]
    recs = asan_run(jobs, tag="c07asan")
    for i, rep in asan_reports(recs):
        ctx.violation({"kind": "asan", "what": "AddressSanitizer report", "report": rep[:400], "dedupe": rep.split("\n")[0][:80]}, {"job": jobs[i], "report": rep})
        recs[i] = None
    judge(ctx, jobs, chunks, recs, "asan")
    ctx.legs.append("asan")
    ctx.count("asan_inputs", len(inputs))


def miri_leg(ctx, inputs, make_jobs, judge, n=640):
    """C07: a slice under Miri (about 40 inputs per process, 16 processes)"""
    step = max(1, len(inputs) // n)
    sl = inputs[::step][:n]
    per = 40
    jobs = make_jobs(sl, per)
    chunks = [sl[k:k + per] for k in range(0, len(sl), per)]
    recs, reports = miri_run(jobs, per_process=1)
    for r in reports:
        if r["ub"]:
            ctx.violation({"kind": "miri", "what": "Miri reports undefined behaviour", "report": r["stderr"][-600:], "dedupe": "miri-ub"}, {"report": r["stderr"], "job": jobs[r["job_index"]] if r["job_index"] is not None else None})
        else:
            ctx.count("miri_unsupported_or_error")
    judge(ctx, jobs, chunks, recs, "miri")
    ctx.legs.append("miri")
    ctx.count("miri_inputs", sum(len(c) for c, r in zip(chunks, recs) if r))

"""Generator for C05: programs nesting the derived forms (begin let let* cond case and or when unless) with a ticking
expression in every sub-form position."""
from .sx import S, Sym, Dot, Vec, Real, show, q

FORMS = ["begin", "let", "let*", "cond", "case", "and", "or", "when", "unless"]
POSITIONS = {
    "begin": ["first", "last"],
    "let": ["init", "body-first", "last"],
    "let*": ["init", "init2", "last"],
    "cond": ["test", "clause-body", "last", "arrow-receiver", "else-body", "test-only"],
    "case": ["key", "clause-body", "last", "arrow-receiver", "else-body", "else-arrow-receiver"],
    "and": ["first", "middle", "last"],
    "or": ["first", "middle", "last"],
    "when": ["test", "first", "last"],
    "unless": ["test", "first", "last"],
}
CAPTURE_PRONE = ["x", "temp", "atom-key"]


class DG:
    def __init__(self, rng, capture_rate=0.0, minimal_rate=0.15):
        self.rng = rng
        self.k = 0
        self.nv = 0
        self.capture_rate = capture_rate
        self.minimal_rate = minimal_rate     # rate of minimal shapes: (when t e), (let () e), (and), (or), (begin e)
        self.prelude = []                    # top-level definitions the generated expressions rely on (thunks)
        self.last = None                     # (ticking expression, variables it reads): leaf() now and then repeats it verbatim

    def tk(self, e):
        """a ticking expression, in one of several shapes: the call (tick k e) itself, a call of a procedure of no arguments
        (a global thunk when e is closed, an immediately applied lambda otherwise), or a one-form begin"""
        self.k += 1
        t = [S("tick"), self.k, e]
        c = self.rng.random()
        if isinstance(e, Sym) or closed(e):
            self.last = (t, {e.name} if isinstance(e, Sym) else set())
        if c < 0.72:
            return t
        if c < 0.86:
            if closed(e):
                name = "th%d" % self.k
                self.prelude.append([S("define"), [S(name)], t])
                return [S(name)]
            return [[S("lambda"), [], t]]
        if c < 0.90:
            return [[S("lambda"), [], t]]
        if c < 0.96:
            # a call whose operator is itself a two-element call and whose operand is a two-element call: ((zpick 0) (zid T))
            if not any(isinstance(f, list) and len(f) > 1 and f[1] == [S("zid"), S("zx")] for f in self.prelude):
                self.prelude.insert(0, [S("define"), [S("zid"), S("zx")], S("zx")])
                self.prelude.insert(0, [S("define"), [S("zpick"), S("zn")], [S("lambda"), [S("zy")], S("zy")]])
            return [[S("zpick"), 0], [S("zid"), t]]
        return [S("begin"), t]

    def many(self, lo, hi):
        """how many sub-forms: usually lo..hi, now and then several times as many (long cond/case/and/or/let/begin forms)"""
        if self.rng.random() < 0.03:
            return hi * self.rng.choice([4, 8])
        return self.rng.randint(lo, hi)

    def var(self):
        if self.rng.random() < self.capture_rate:
            return self.rng.choice(CAPTURE_PRONE)
        self.nv += 1
        return "w%d" % self.nv

    def leaf(self, env):
        r = self.rng
        if self.last is not None and r.random() < 0.12 and self.last[1] <= set(env):
            # the SAME expression once more (same tick number): textually identical neighbours - (and E E), (when E E), (begin E E) - are
            # still two evaluations
            import copy
            return copy.deepcopy(self.last[0])
        if env and r.random() < 0.5:
            return self.tk(S(r.choice(env)))
        return self.tk(r.randint(0, 30))

    def truth(self, want, env):
        """a ticking test expression that is true / false as wanted (not only booleans: only #f is false)"""
        r = self.rng
        if want:
            return self.tk(r.choice([True, 0, q([]), "", q(S("a")), r.randint(1, 9)]))
        # false is #f however it is written: as a literal, a quotation, or the value of a variable-free expression
        return self.rng.choice([self.tk(False), self.tk(False), q(False), [S("quote"), False] if False else self.tk(q(False)), self.tk([S("not"), 1])])

    def proc_leaf(self, env, inner):
        """a procedure for a => receiver: applies `inner` builder to its argument"""
        v = self.var()
        return [S("lambda"), [S(v)], inner(env + [v])]

    def build(self, form, env, fill, depth):
        """an instance of `form`; fill(position, env) -> expression for a sub-form position or None to use a leaf.
        Returns the expression. The selected branch is random."""
        r = self.rng
        sub = lambda pos, e=None: (fill(pos, e if e is not None else env) or self.leaf(e if e is not None else env))
        if form == "begin":
            n = self.many(0, 2) if r.random() > self.minimal_rate else 0
            return [S("begin")] + [sub("first") for _ in range(n)] + [sub("last")]
        if form in ("let", "let*"):
            nb = self.many(1, 3) if r.random() > self.minimal_rate else 0
            names, binds, scope = [], [], list(env)
            for i in range(nb):
                v = r.choice(env) if (env and r.random() < 0.3) else self.var()      # shadowing of outer variables
                if names and r.random() < 0.08 and names[-1].upper() != names[-1] and names[-1].upper() not in names:
                    v = names[-1].upper()          # a variable that differs from its neighbour only in the case of its letters
                if form == "let" and v in names:
                    v = self.var()
                init_env = env if form == "let" else scope
                binds.append([S(v), sub("init" if i == 0 else "init2", init_env)])
                names.append(v)
                if form == "let*":
                    scope = scope + [v]
            inner = env + names
            nbody = r.randint(0, 2)
            defs = []
            getter = None
            if form == "let*" and r.random() < 0.3:
                # a procedure made in an initialiser reads a variable that a LATER binding of the same let* binds again (or that only an outer
                # scope / nobody binds at that point): it keeps seeing the binding that was visible where it was made
                seen = [b[0].name for b in binds]
                v = r.choice(seen) if seen and r.random() < 0.7 else (r.choice(env) if env else None)
                if v is not None:
                    getter = self.var()
                    binds.append([S(getter), [S("lambda"), [], self.tk(S(v))]])
                    binds.append([S(v), self.tk(r.randint(40, 60))])
                    if v not in inner:
                        inner = inner + [v]
            if r.random() < 0.3:
                # internal definitions at the head of the body, sometimes named like a variable of an enclosing scope: they are local to this body
                for _ in range(r.randint(1, 2)):
                    dv = r.choice(env) if (env and r.random() < 0.6) else self.var()
                    # the initialiser does not mention the name being defined (R7RS: that would refer to the new, still uninitialised binding)
                    defs.append([S("define"), S(dv), self.leaf([v for v in inner if v != dv])])
                    inner = inner + [dv]
            expr = [S(form), binds] + defs + [sub("body-first", inner) for _ in range(nbody)] + ([[S("list"), [S(getter)], sub("last", inner)]] if getter else [sub("last", inner)])
            if defs and env:
                # read the enclosing scope's variables after the body
                return [S("list"), expr] + [S(v) for v in env[:3]]
            return expr
        if form == "cond":
            n = self.many(1, 4)
            sel = r.randrange(n + 1)      # n = fall through to else / nothing
            clauses = []
            for i in range(n):
                want = (i == sel)
                kind = r.random()
                t = fill("test", env) if (i == 0 and fill("test", env) is not None and False) else self.truth(want, env)
                if want and i == 0:
                    t0 = fill("test", env)
                    if t0 is not None:
                        t = [S("begin"), t0, self.truth(True, env)]
                if kind < 0.2:
                    clauses.append([t if not (want and kind < 0.1) else (sub("test-only"))])
                elif kind < 0.45:
                    clauses.append([t, S("=>"), fill("arrow-receiver", env) or self.proc_leaf(env, self.leaf)])
                else:
                    nb = r.randint(0, 2)
                    clauses.append([t] + [sub("clause-body") for _ in range(nb)] + [sub("last")])
            if r.random() < 0.6:
                nb = r.randint(0, 2)
                clauses.append([S("else")] + [sub("else-body") for _ in range(nb)] + [sub("else-body")])
            return [S("cond")] + clauses
        if form == "case":
            n = self.many(1, 3)
            keyval = r.randint(0, 6)
            key = fill("key", env)
            key = [S("begin"), key, self.tk(keyval)] if key is not None else self.tk(keyval)
            kk = r.random()
            if kk < 0.25:
                key = keyval      # a plain atom as key
            elif kk < 0.35 and env:
                key = S(r.choice(env))      # a variable as key
            pool = [S("a"), S("b"), 0, 1, 2, 3, 4, 5, 6, True]
            if r.random() < 0.15:
                # keys that are freshly made lists, pairs, vectors or an inexact number: case compares with eqv?, so no datum of equal structure
                # (or equal value but other exactness) is selected
                kx, datum = r.choice([([S("list"), 1, 2], [1, 2]), ([S("cons"), 1, 2], Dot([1], 2)), ([S("vector"), 1, 2], Vec([1, 2])), ([S("list")], []), ([S("list"), q(S("a"))], [S("a")]),
                                      ([S("/"), 4, 2], 2), (Real.of(2.0), 2), ([S("list"), [S("list"), 1]], [[1]])])
                key = self.tk(kx)
                keyval = None
                pool = pool + [datum, datum]
            clauses = []
            for i in range(n):
                data = r.sample(pool, r.randint(1, 3))
                if r.random() < 0.25:
                    clauses.append([data, S("=>"), fill("arrow-receiver", env) or self.proc_leaf(env, self.leaf)])
                else:
                    nb = r.randint(0, 2)
                    clauses.append([data] + [sub("clause-body") for _ in range(nb)] + [sub("last")])
            k = r.random()
            if k < 0.45:
                clauses.append([S("else"), sub("else-body")] + ([sub("else-body")] if r.random() < 0.4 else []))
            elif k < 0.6:
                clauses.append([S("else"), S("=>"), fill("else-arrow-receiver", env) or self.proc_leaf(env, self.leaf)])
            return [S("case"), key] + clauses
        if form in ("and", "or"):
            n = self.many(1, 4) if r.random() > self.minimal_rate else r.randint(0, 1)
            stop = r.randrange(n + 1)
            ops = []
            for i in range(n):
                pos = "first" if i == 0 else ("last" if i == n - 1 else "middle")
                e = fill(pos, env)
                if e is None:
                    decide = (i == stop)
                    e = self.truth(decide if form == "or" else not decide, env) if i < n - 1 or r.random() < 0.5 else self.leaf(env)
                ops.append(e)
            return [S(form)] + ops
        if form in ("when", "unless"):
            want = r.random() < 0.7
            t = fill("test", env)
            tv = self.truth(want if form == "when" else not want, env)
            t = [S("begin"), t, tv] if t is not None else tv
            nb = r.randint(1, 2) if r.random() > self.minimal_rate else 0
            return [S(form), t] + [sub("first") for _ in range(nb)] + [sub("last")]
        raise ValueError(form)

    def random_expr(self, depth, env):
        r = self.rng
        if depth <= 0:
            return self.leaf(env)
        form = r.choice(FORMS)

        def fill(pos, e):
            if pos in ("arrow-receiver", "else-arrow-receiver"):
                if r.random() < 0.5:
                    return self.proc_leaf(e, lambda e2: self.random_expr(depth - 1, e2))
                return None
            if r.random() < 0.45:
                return self.random_expr(depth - 1, e)
            return None
        x = self.build(form, env, fill, depth)
        if r.random() < 0.06:
            # the same form twice, the second time with every variable and number in a ticking leaf replaced by the STRING that prints alike
            # ("w1" for w1, "5" for 5): the two uses differ only in what their operands are, not in how they print
            t = twin(x)
            if t is not None:
                return [S("list"), x, t]
        return x

    def pair(self, outer, pos, inner):
        """outer form with an instance of `inner` in sub-form position `pos`"""
        used = []

        def fill(p, e):
            if p != pos:
                return None
            used.append(p)
            if pos in ("arrow-receiver", "else-arrow-receiver"):
                return self.proc_leaf(e, lambda e2: self.build(inner, e2, lambda a, b: None, 1))
            return self.build(inner, e, lambda a, b: None, 1)
        x = self.build(outer, [], fill, 2)
        return x, bool(used)

    def program(self, depth):
        """definitions and calls with derived forms inside procedures and at top level"""
        r = self.rng
        forms = []
        self.prelude = forms      # thunk definitions go in front, in generation order
        params = [self.var() for _ in range(r.randint(0, 3))]
        f = "df%d" % r.randint(1, 99)
        body = [self.random_expr(depth, params) for _ in range(r.randint(1, 2))]
        forms.append([S("define"), [S(f)] + [S(p) for p in params]] + body)
        forms.append([S("list")] + [[S(f)] + [r.randint(0, 9) for _ in params] for _ in range(r.randint(1, 2))])
        g = self.var()
        forms.append([S("define"), S(g), r.randint(0, 9)])
        forms.append(self.random_expr(depth, [g]))
        forms.append([S("list"), self.random_expr(depth - 1, [g]), S(g)])
        return forms


def twin(x):
    """x with the operand of every direct (tick k OPERAND) leaf turned into the string of the same printed text; None if there is no such leaf"""
    hit = [False]

    def go(e):
        if isinstance(e, list):
            if len(e) == 3 and e[0] == S("tick") and isinstance(e[1], int) and (isinstance(e[2], Sym) or (isinstance(e[2], int) and not isinstance(e[2], bool))):
                hit[0] = True
                return [e[0], e[1], e[2].name if isinstance(e[2], Sym) else str(e[2])]
            return [go(y) for y in e]
        return e
    t = go(x)
    return t if hit[0] else None


def closed(e):
    """no variable references: a literal or a quotation"""
    if isinstance(e, Sym):
        return False
    if isinstance(e, list):
        return bool(e) and e[0] == S("quote") or all(closed(x) for x in e[1:]) and isinstance(e[0], Sym) and e[0].name in ("not",)
    return True


def binds_capture_prone(x):
    """does the program text bind (or rebind) an identifier the unhygienic expander can capture?"""
    t = show(x) if not isinstance(x, str) else x
    import re
    return bool(re.search(r"[( ](x|temp|atom-key)[ )]", t)) or bool(re.search(r"\((define|set!) \(?(memv|not|null\?)[ )]", t))


def alpha_rename(x):
    if isinstance(x, list):
        return [alpha_rename(e) for e in x]
    if isinstance(x, Sym) and x.name in CAPTURE_PRONE:
        return Sym(x.name + "-renamed")
    return x

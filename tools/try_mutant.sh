#!/bin/bash
# usage: try_mutant.sh PATCH CHECK [CHECK...]  - apply a seeded change to /repo, run the quick checks, undo it
patch=$(realpath "$1"); shift
# a change whose stored patch (made against the commit in its meta.json) conflicts with a later fix: commit may have a ported copy beside it
alt="$(dirname "$patch")/patch-on-$(git -C /repo rev-parse --short HEAD).diff"
[ -f "$alt" ] && patch="$alt"
cd /repo || exit 2
if ! git diff --quiet; then echo "repo dirty"; exit 2; fi
if ! git apply "$patch" 2>/tmp/apply.err; then
  if ! git apply --3way "$patch" 2>>/tmp/apply.err; then echo "PATCH DOES NOT APPLY"; cat /tmp/apply.err; git reset -q; git checkout -- . ; exit 3; fi
  git reset -q
fi
cd /verif
export VERIF_EVIDENCE_DIR=/tmp/mutant-evidence
for c in "$@"; do
  out=$(VERIF_SEED=${VERIF_SEED:-1} python3 check.py $c --tier ${TIER:-quick} 2>&1); rc=$?
  echo "== $c rc=$rc"; echo "$out" | grep -E "^\[C|violation:|KNOWN|INCONCL" | cut -c1-${WIDTH:-400} | head -${LINES_MAX:-8}
done
git -C /repo reset -q
git -C /repo checkout -- .
git -C /repo clean -fdq -- src tests examples
git -C /repo status --short | grep -v '^??' 

"""C14 - library loading terminates, and its outcome depends only on the library graph.
Fault enumeration: every directed graph on <= N libraries (self loops included) x every assignment of node kinds (healthy,
missing, faulting body, wrong name in file, syntactically broken, not UTF-8) x every history of 3 import attempts on one
interpreter, libraries supplied as files under the program directory (the process's cwd holds decoys) and as registered
sources.  Oracle: depth-first loader model; H3 invariant: no library stays marked 'in progress' after eval returned."""
import itertools, json, os, shutil, tempfile
from . import core

PID = "C14"
LEVEL = "fault_enumeration"
NAMES = ["a", "b", "c", "d", "e", "f", "h", "i", "j", "k", "l", "m"]
KINDS_FILE = ["healthy", "missing", "faulting", "wrongname", "broken", "nonutf8", "nobase"]
KINDS_REG = ["healthy", "missing", "faulting", "nobase"]
ERR_OF = {"nobase": ["Logic.UnboundedSymbol"], "missing": ["Logic.LibraryNotFound"], "wrongname": ["Logic.LibraryNotFound"], "faulting": ["Logic.UnboundedSymbol"],
          "broken": ["Syntax."], "nonutf8": ["IO"], "cycle": ["Logic.LibraryImportCyclic"]}


def edge(i, j, salt=0):
    """the import set that stands for the edge i -> j: the library name itself or wrapped in only / except / prefix / rename"""
    n = NAMES[j]
    k = (3 * i + 5 * j + salt) % 7
    if k == 1:
        return "(only (g %s) v%s)" % (n, n)
    if k == 2:
        return "(prefix (g %s) from-%s-)" % (n, n)
    if k == 3:
        return "(except (g %s))" % n
    if k == 4:
        return "(rename (g %s) (v%s dep-%s))" % (n, n, n)
    if k == 5:
        return "(only (prefix (g %s) q) qv%s)" % (n, n)
    return "(g %s)" % n


def source(i, deps, kind, salt=0):
    n = NAMES[i]
    imports = " ".join(edge(i, j, salt) for j in deps)
    imp = "(import %s) " % imports if imports else ""
    style = (i + len(deps) + sum(deps)) % 3
    if kind == "nobase" and style == 2:
        style = 1        # this kind never imports (scheme base): its body uses + and so faults, whatever the program itself has imported
    if style == 1 and deps:
        # one import declaration per dependency
        imp = "".join("(import %s) " % edge(i, j, salt) for j in deps)
    elif style == 2:
        # a leading declaration that completes before the ones holding the edges of the graph
        imp = "(import (scheme base)) " + "".join("(import %s) " % edge(i, j, salt) for j in deps)
    # a file that defines a library of another name: an unrelated one, a proper prefix of the requested name, or an extension of it
    name = ["(g zzz)", "(g)", "(g %s extra)" % n, "(g %s 0)" % n][(i + salt) % 4] if kind == "wrongname" else "(g %s)" % n
    body = "(define v%s no-such-variable-%s)" % (n, n) if kind == "faulting" else "(define v%s %d)" % (n, 10 + i)
    if kind == "nobase":
        body = "(define v%s (+ %d 0))" % (n, 10 + i)
    text = "(define-library %s %s(export v%s) (begin %s))" % (name, imp, n, body)
    if kind == "broken":
        text = "(define-library (g %s) %s(export v%s) (begin (define v%s" % (n, imp, n, n)
    data = text.encode()
    if kind == "nonutf8":
        data = text.replace(")))", " \"").encode() + b"\xff\xfe\")))"
    return data


def reachable_outcomes(n, adj, kinds):
    """(can_succeed, set of acceptable error kinds) for importing node n on a fresh interpreter"""
    seen, acc = set(), set()
    cyc = [False]

    def dfs(x, stack):
        k = kinds[x]
        if k in ("missing", "wrongname", "broken", "nonutf8"):
            acc.add(k); return
        if x in stack:
            cyc[0] = True; return
        if x in seen:
            return
        seen.add(x)
        for y in adj[x]:
            dfs(y, stack | {x})
        if k in ("faulting", "nobase"):
            acc.add(k)
    dfs(n, frozenset())
    # a cycle: some reachable loadable node can reach itself
    def reach(x):
        out, todo = set(), [x]
        while todo:
            y = todo.pop()
            if kinds[y] in ("missing", "wrongname", "broken", "nonutf8"):
                continue
            for z in adj[y]:
                if z not in out:
                    out.add(z); todo.append(z)
        return out
    loadable = [x for x in ({n} | reach(n)) if kinds[x] in ("healthy", "faulting", "nobase")]
    has_cycle = any(x in reach(x) for x in loadable)
    errs = set(acc)
    if has_cycle:
        errs.add("cycle")
    return (not errs), errs


def first_error(n, adj, kinds):
    """the error the depth-first loader meets first (used for the 'exactly when' clause on cycles)"""
    def dfs(x, stack):
        k = kinds[x]
        if x in stack:
            return "cycle"
        if k in ("missing", "wrongname", "broken", "nonutf8"):
            return k
        for y in adj[x]:
            e = dfs(y, stack + [x])
            if e:
                return e
        return k if k in ("faulting", "nobase") else None
    return dfs(n, [])


def match_err(errkinds, e):
    k = e.get("kind", "")
    for x in errkinds:
        for pat in ERR_OF[x]:
            if k.startswith(pat) or (pat == "Syntax." and k.startswith("Logic.MetaCircularSyntax")):
                return True
    return False


def graphs(n):
    cells = [(i, j) for i in range(n) for j in range(n)]
    for bits in range(1 << len(cells)):
        adj = [[] for _ in range(n)]
        for b, (i, j) in enumerate(cells):
            if bits >> b & 1:
                adj[i].append(j)
        yield adj


def program_directories(ctx, root, decoy, leg):
    """several program files in DIFFERENT directories run one after another on ONE interpreter: each program's libraries are found beside that
    program (the first program's directory, the working directory with its decoys and earlier failures do not matter)"""
    rng = ctx.rng
    jobs, meta = [], []
    for case in range(60):
        base = os.path.join(root, "pd%d" % case)
        k = rng.choice([2, 2, 3])
        order = rng.sample(range(3), k)          # program x lives in directory dx and imports library NAMES[x] (with a dependency for x = 2)
        steps = [{"new": {"stdlib": False, "natives": False}}]
        expect = []
        bound = set()
        for pos, x in enumerate(order):
            d = os.path.join(base, "dir%d" % x)
            os.makedirs(os.path.join(d, "g"), exist_ok=True)
            open(os.path.join(d, "g", "%s.sld" % NAMES[x]), "wb").write(source(x, [3] if x == 2 else [], "healthy", case))
            if x == 2:
                open(os.path.join(d, "g", "d.sld"), "wb").write(source(3, [], "healthy", case))
            fails = rng.random() < 0.25
            prog = os.path.join(d, "prog%d.scm" % x)
            lib = "nosuch" if fails else NAMES[x]
            # import declarations only: Ruschm accepts no import after the first expression or definition evaluated on an interpreter
            open(prog, "w").write("(import (g %s))\n" % lib)
            arg = prog if (case + pos) % 2 == 0 else os.path.relpath(prog, decoy)
            steps.append({"it": 0, "file": arg}); steps.append({"it": 0, "env_names": True})
            if not fails:
                bound |= {"v" + NAMES[x]}
            expect.append((fails, set(bound), arg))
        jobs.append({"id": "c14pd-%d" % case, "interps": [], "steps": steps, "fuel": 50000}); meta.append(expect)
    recs = core.run_jobs(jobs, leg, timeout=900, tag="c14pd", env_extra={"__cwd": decoy})
    for expect, rec in zip(meta, recs):
        if rec is None or "steps" not in rec:
            ctx.inconclusive_cases += 1; continue
        st = rec["steps"][1:]
        files = [a for _, _, a in expect]
        for i, (fails, bound, arg) in enumerate(expect):
            ctx.evaluations += 1
            run_, names = st[2 * i], st[2 * i + 1]
            kind, val = core.outcome(run_)
            d = {"kind": "progdir", "programs": files[:i + 1], "position": i}
            if fails:
                if kind != "err" or not val.get("kind", "").startswith("Logic.LibraryNotFound"):
                    ctx.violation(dict(d, what="a program importing a library that is not beside it must fail with library-not-found", observed=val, dedupe="pd-nofail"), {"case": d})
                    break
            elif kind != "ok":
                ctx.violation(dict(d, what="a program file run after another one on the same interpreter did not find the library beside it", observed=val, first=(i == 0),
                                   dedupe="pd-fail|%s" % (i == 0)), {"case": d})
                break
            kn, nv = core.outcome(names)
            got = set(nv.keys()) if kn == "ok" and isinstance(nv, dict) else None
            if got is not None and got != bound:
                ctx.violation(dict(d, what="names bound after running the program files differ from what the programs define and import", expected=sorted(bound), observed=sorted(got),
                                   dedupe="pd-names"), {"case": d})
                break
            if got is not None and any(nv[k2] != {"i": 10 + NAMES.index(k2[-1])} for k2 in got):
                ctx.violation(dict(d, what="a value came from a library of another directory", observed=nv, dedupe="pd-values"), {"case": d}); break
            ctx.count("program_files_run")
        else:
            ctx.nontriv("pd|%d|%s" % (len(expect), [f for f, _, _ in expect]))
    ctx.legs.append("program-directories")


MACRO_LIBS = {
    # a helper macro ABOVE the library form of its source, used by the library body
    "a": ("(define-syntax check (syntax-rules () ((check e) (+ e 100))))\n(define-library (g a) (import (scheme base)) (export va) (begin (define va (check 5))))", "va", 105),
    # an unrelated library with a PROCEDURE of that name
    "b": ("(define-library (g b) (import (scheme base)) (export vb) (begin (define (check x) (+ x 8)) (define (twice x) (* 2 x)) (define vb (+ (check 1) (twice 0)))))", "vb", 9),
    # a library that exports a macro of its own besides a value, and one that imports it
    "ma": ("(define-library (g ma) (export vma twice) (begin (define-syntax twice (syntax-rules () ((twice e) (cons e e)))) (define vma 1)))", "vma", 1),
    # (the importer does not USE the macro: on the pinned tree a library body cannot expand a macro it imported - it is applied as a procedure and faults,
    # deterministically, whatever happened before)
    "ub": ("(define-library (g ub) (import (scheme base) (g ma)) (export vub) (begin (define vub (+ vma 6))))", "vub", 7),
    # a source holding two libraries; the requested one is the second and has a macro of its own
    "two": ("(define-library (g other) (export vo) (begin (define vo 3)))\n(define-library (g two) (import (scheme base)) (export vtwo) "
            "(begin (define-syntax check (syntax-rules () ((check e) (+ e 200)))) (define-syntax twice (syntax-rules () ((twice e) 'macro))) (define vtwo (check 2))))", "vtwo", 202),
}


def macro_libraries(ctx, root, decoy, leg):
    """healthy libraries that involve MACROS (a helper macro above the library form, a macro exported by a library, a macro local to the second
    library of a source) next to a healthy library that has procedures of the same names: every import succeeds and binds the value the library
    defines, in every order of the imports, also on a second interpreter created afterwards on the same thread"""
    names = list(MACRO_LIBS)
    d = os.path.join(root, "macrolibs")
    os.makedirs(os.path.join(d, "g"), exist_ok=True)
    for n, (src, _, _) in MACRO_LIBS.items():
        open(os.path.join(d, "g", n + ".sld"), "w").write(src + "\n")
    jobs, meta = [], []
    for mode in ("file", "registered"):
        if mode == "file":
            spec = {"stdlib": False, "natives": False, "progdir": d}
        else:
            spec = {"stdlib": False, "natives": False, "progdir": os.path.join(root, "empty"), "libs": [{"name": ["g", n], "src": MACRO_LIBS[n][0]} for n in names]}
        for h in itertools.permutations(names, 3):
            for second in (None, "b", "ub"):
                steps = [{"new": spec}]
                # the imports first (an interpreter refuses imports once an expression has been evaluated), then the values
                steps += [{"it": 0, "src": "(import (g %s))" % x} for x in h] + [{"it": 0, "src": MACRO_LIBS[x][1]} for x in h]
                if second:
                    steps += [{"new": spec}, {"it": 1, "src": "(import (g %s))" % second}, {"it": 1, "src": MACRO_LIBS[second][1]}]
                jobs.append({"id": "c14m", "interps": [], "steps": steps, "fuel": 50000}); meta.append((mode, list(h), second))
    recs = core.run_jobs(jobs, leg, timeout=900, tag="c14m", env_extra={"__cwd": decoy})
    for (mode, order, second), rec in zip(meta, recs):
        if rec is None or "steps" not in rec:
            ctx.inconclusive_cases += 1; continue
        st = rec["steps"]
        pairs = [(x, st[1 + i], st[4 + i]) for i, x in enumerate(order)] + ([(second, st[8], st[9])] if second else [])
        good = True
        for x, imp, val in pairs:
            ctx.evaluations += 1
            ki, vi = core.outcome(imp)
            kv, vv = core.outcome(val)
            if ki != "ok" or kv != "ok" or vv != {"i": MACRO_LIBS[x][2]}:
                ctx.violation({"what": "a healthy library that involves macros (or stands next to one) did not import, or bound another value than its body defines", "kind": "macro-libraries",
                               "mode": mode, "imports": order, "second_interpreter": second, "failed_at": "(g %s)" % x, "import_outcome": vi if ki != "ok" else "ok",
                               "value": vv, "expected": MACRO_LIBS[x][2], "dedupe": "ml|%s|%s|%s" % (mode, x, ki)}, {"mode": mode, "imports": order})
                good = False; break
        if good:
            ctx.count("macro_library_histories"); ctx.nontriv("ml|%s|%s|%s" % (mode, "/".join(order), second))
    # two healthy libraries that both RE-EXPORT a binding of a dependency they share (and a prelude that re-exports car next to (scheme base)), named in ONE
    # declaration: the same binding reached along two paths - the import succeeds
    rex = {"rb": "(define-library (g rb) (import (scheme base)) (export vrb rbf) (begin (define vrb 1) (define (rbf) 2)))",
           "rx": "(define-library (g rx) (import (scheme base) (g rb)) (export vrb vrx rbf) (begin (define vrx (+ vrb 10))))",
           "ry": "(define-library (g ry) (import (g rb) (scheme base)) (export vrb vry (rename rbf ryf)) (begin (define vry (+ vrb 20))))",
           "pre": "(define-library (g pre) (import (scheme base)) (export car cdr vpre) (begin (define vpre 3)))"}
    for n, src in rex.items():
        open(os.path.join(d, "g", n + ".sld"), "w").write(src + "\n")
    decls = ["(import (g rx) (g ry))", "(import (g ry) (g rx) (g rb))", "(import (scheme base) (g pre))", "(import (g pre) (scheme base) (g rx) (g ry))", "(import (only (g rx) vrb) (prefix (g ry) y-) (g rb))"]
    jobs, meta = [], []
    for mode in ("file", "registered"):
        spec = {"stdlib": False, "natives": False, "progdir": d} if mode == "file" else \
               {"stdlib": False, "natives": False, "progdir": os.path.join(root, "empty"), "libs": [{"name": ["g", n], "src": rex[n]} for n in rex]}
        for decl in decls:
            jobs.append({"id": "c14x", "interps": [spec], "steps": [{"src": decl}, {"src": "vrb" if "(g r" in decl else "vpre"}], "fuel": 50000}); meta.append((mode, decl))
    recs = core.run_jobs(jobs, leg, timeout=600, tag="c14x", env_extra={"__cwd": decoy})
    for (mode, decl), rec in zip(meta, recs):
        if rec is None or "steps" not in rec:
            ctx.inconclusive_cases += 1; continue
        ctx.evaluations += 1
        (k0, v0), (k1, v1) = core.outcome(rec["steps"][0]), core.outcome(rec["steps"][1])
        if k0 != "ok" or k1 != "ok" or v1 != {"i": 1 if "(g r" in decl else 3}:
            ctx.violation({"what": "a declaration naming two healthy libraries that re-export the same binding of a shared dependency did not import", "kind": "shared-re-export", "mode": mode,
                           "declaration": decl, "import_outcome": v0 if k0 != "ok" else "ok", "value": v1, "dedupe": "rex|%s|%s" % (mode, k0)}, {"mode": mode, "declaration": decl})
        else:
            ctx.count("shared_re_export_declarations")
    ctx.legs.append("macro-libraries")


def multi_library_sources(ctx, root, decoy, leg):
    """library FILES that hold several define-library forms: only the library that was asked for (and is named like the file) comes out of a file, whether
    the load succeeds or fails - the other forms of the file never become importable under their own names, in any order of the attempts"""
    d = os.path.join(root, "multi")
    os.makedirs(os.path.join(d, "g"), exist_ok=True)
    files = {
        # helper first, then a library of another name than the file: (g s) is not found, and (g s impl) has no file of its own
        "s": "(define-library (g s impl) (export vsi) (begin (define vsi 1)))\n(define-library (g zzz) (export vz) (begin (define vz 2)))\n",
        # helper first, then the requested library broken off in the middle
        "n": "(define-library (g n codec) (export vc) (begin (define vc 1)))\n(define-library (g n) (export vn) (begin (define vn",
        # helper first, then the requested library, healthy
        "t": "(define-library (g t helper) (export vh) (begin (define vh 5)))\n(define-library (g t) (export vt) (begin (define vt 6)))\n",
        # the requested library first, a helper after it
        "u": "(define-library (g u) (export vu) (begin (define vu 7)))\n(define-library (g u helper) (export vuh) (begin (define vuh 8)))\n",
    }
    for n, src in files.items():
        open(os.path.join(d, "g", n + ".sld"), "w").write(src)
    want = {"(g s)": ("err", "Logic.LibraryNotFound"), "(g s impl)": ("err", "Logic.LibraryNotFound"), "(g zzz)": ("err", "Logic.LibraryNotFound"),
            "(g n)": ("err", "Syntax."), "(g n codec)": ("err", "Logic.LibraryNotFound"),
            "(g t)": ("ok", None), "(g t helper)": ("err", "Logic.LibraryNotFound"), "(g u)": ("ok", None), "(g u helper)": ("err", "Logic.LibraryNotFound")}
    names = list(want)
    spec = {"stdlib": False, "natives": False, "progdir": d}
    jobs, meta = [], []
    for h in itertools.permutations(names, 3):
        jobs.append({"id": "c14ml", "interps": [spec], "steps": [{"src": "(import %s)" % x} for x in h] + [{"env_names": True}], "fuel": 50000}); meta.append(h)
    recs = core.run_jobs(jobs, leg, timeout=900, tag="c14ml", env_extra={"__cwd": decoy})
    for h, rec in zip(meta, recs):
        if rec is None or "steps" not in rec:
            ctx.inconclusive_cases += 1; continue
        good = True
        for x, st in zip(h, rec["steps"]):
            ctx.evaluations += 1
            k, v = core.outcome(st)
            wk, wv = want[x]
            if (wk == "ok") != (k == "ok") or (wk == "err" and not str(v.get("kind", "")).startswith(wv)):
                ctx.violation({"what": "a library file holding several libraries: an import did not end as the files alone determine (only the library named like the file "
                                       "comes out of it)", "kind": "multi-library-file", "imports": list(h), "failed_at": x, "expected": wv or "success",
                               "observed": (v if k != "ok" else "import succeeded"), "dedupe": "mlf|%s|%s" % (x, k)}, {"imports": list(h)})
                good = False; break
        if good:
            kn, nv = core.outcome(rec["steps"][-1])
            got = sorted(nv) if kn == "ok" and isinstance(nv, dict) else None
            exp = sorted({"(g t)": "vt", "(g u)": "vu"}[x] for x in h if want[x][0] == "ok")
            if got != exp:
                ctx.violation({"what": "names bound after importing from multi-library files differ from the exports of the libraries imported successfully", "kind": "multi-library-file",
                               "imports": list(h), "expected": exp, "observed": got, "dedupe": "mlf-names"}, {"imports": list(h)})
            else:
                ctx.count("multi_library_file_histories"); ctx.nontriv("mlf|" + "/".join(h))
    ctx.legs.append("multi-library-files")


def resupply(ctx, root, decoy, leg):
    """a library that has been imported (or has failed to import, or was missing) is supplied again with another definition, through
    register_library_factory or through an appended LibraryLoader: the next import follows the definition that is current then - also the import of
    libraries that DEPEND on it ((g d) imports (g a), (g t) imports (g d)) and failed earlier only because of it"""
    versions = {"healthy": "(define-library (g a) (export va) (begin (define va 10)))", "changed": "(define-library (g a) (export va) (begin (define va 77)))",
                "faulting": "(define-library (g a) (export va) (begin (define va no-such-variable-a)))", "selfloop": "(define-library (g a) (import (g a)) (export va) (begin (define va 10)))"}
    want = {"healthy": ("ok", 10), "changed": ("ok", 77), "faulting": ("err", "Logic.UnboundedSymbol"), "selfloop": ("err", "Logic.LibraryImportCyclic"),
            "missing": ("err", "Logic.LibraryNotFound")}
    dependants = [{"name": ["g", "d"], "src": "(define-library (g d) (import (g a)) (export vd) (begin (define vd va)))"},
                  {"name": ["g", "t"], "src": "(define-library (g t) (import (g d)) (export vt) (begin (define vt vd)))"}]
    var = {"a": "va", "d": "vd", "t": "vt"}
    jobs, meta = [], []
    os.makedirs(os.path.join(root, "empty"), exist_ok=True)
    for api in ("register", "append_loader"):
        for k1 in list(versions) + ["missing"]:
            for k2 in versions:
                for k3 in (None, "healthy", "faulting"):
                    for targets in (["a"], ["d"], ["t"], ["d", "a"], ["t", "d"], ["a", "t"]):
                        seq = [k1, k2] + ([k3] if k3 else [])
                        libs = ([{"name": ["g", "a"], "src": versions[k1]}] if k1 != "missing" else []) + dependants
                        steps = [{"new": {"stdlib": False, "natives": False, "progdir": os.path.join(root, "empty"), "libs": libs}}]
                        for i, k in enumerate(seq):
                            if i > 0:
                                steps.append({"it": 0, api: {"name": ["g", "a"], "src": versions[k]}})
                            for x in targets:
                                steps.append({"it": 0, "src": "(import (g %s))" % x}); steps.append({"it": 0, "env_names": True})
                        jobs.append({"id": "c14rs", "interps": [], "steps": steps, "fuel": 50000}); meta.append((api, seq, targets))
    recs = core.run_jobs(jobs, leg, timeout=900, tag="c14rs", env_extra={"__cwd": decoy})
    for (api, seq, targets), rec, job in zip(meta, recs, jobs):
        if rec is None or "steps" not in rec:
            ctx.inconclusive_cases += 1; continue
        st = rec["steps"]
        pos = 1
        good = True
        inst = {}       # dependants instantiated so far -> the value they captured (an instantiated library is not evaluated again)
        for i, k in enumerate(seq):
            if i > 0:
                if "ok" not in st[pos]:
                    ctx.violation({"what": "supplying a library again failed", "kind": "resupply", "api": api, "sequence": seq, "observed": st[pos], "dedupe": "rs-reg|" + api}, {"sequence": seq, "api": api})
                    good = False; break
                pos += 1
            for x in targets:
                imp, names = st[pos], st[pos + 1]; pos += 2
                ctx.evaluations += 1
                kind, val = core.outcome(imp)
                wk, wv = want[k]
                if x != "a":
                    below = "d" if x == "t" else "a"
                    if x in inst:
                        wk, wv = "ok", inst[x]
                    elif below in inst:
                        wk, wv = "ok", inst[below]
                    if wk == "ok":
                        inst[x] = wv
                        if x == "t":
                            inst.setdefault("d", wv)
                d = {"kind": "resupply", "api": api, "sequence": seq, "targets": targets, "attempt": i, "version": k, "imported": "(g %s)" % x}
                if wk == "ok":
                    kn, nv = core.outcome(names)
                    if kind != "ok" or not isinstance(nv, dict) or nv.get(var[x]) != {"i": wv}:
                        ctx.violation(dict(d, what="after a library was supplied again the import (of it or of a library depending on it) does not follow its current definition",
                                           expected="%s = %d" % (var[x], wv), observed=(nv if kind == "ok" else val), dedupe="rs|%s|%s|%s" % (api, k, x)), {"sequence": seq, "api": api, "targets": targets})
                        good = False; break
                else:
                    if kind != "err" or not str(val.get("kind", "")).startswith(wv):
                        ctx.violation(dict(d, what="after a library was supplied again the import (of it or of a library depending on it) does not follow its current definition", expected=wv,
                                           observed=(val if kind != "ok" else "import succeeded"), dedupe="rs|%s|%s|%s" % (api, k, x)), {"sequence": seq, "api": api, "targets": targets})
                        good = False; break
                if imp.get("inprog"):
                    ctx.violation(dict(d, what="a library is still marked 'being imported' after the import returned", marks=imp["inprog"], dedupe="rs-inprog"), {"sequence": seq}); good = False; break
            if not good:
                break
        if good:
            ctx.count("resupply_histories"); ctx.nontriv("rs|%s|%s|%s" % (api, "/".join(seq), "".join(targets)))
    ctx.legs.append("resupply")


def run(tier, seed):
    ctx = core.Ctx(PID, tier, seed, LEVEL)
    rng = ctx.rng
    root = tempfile.mkdtemp(prefix="c14-", dir=core.TMP)
    decoy = os.path.join(root, "decoy-cwd")
    os.makedirs(os.path.join(decoy, "g"))
    for i, n in enumerate(NAMES):
        # decoys in the process's working directory: must never be loaded (libraries are located relative to the program's directory)
        open(os.path.join(decoy, "g", "%s.sld" % n), "w").write("(define-library (g %s) (export v%s) (begin (define v%s 'decoy)))" % (n, n, n))
    cases = []          # (mode, n, adj, kinds)
    # exhaustive for <= 2 nodes
    for n in (1, 2):
        for adj in graphs(n):
            for kinds in itertools.product(KINDS_FILE, repeat=n):
                cases.append(("file", n, adj, kinds))
            for kinds in itertools.product(KINDS_REG, repeat=n):
                cases.append(("reg", n, adj, kinds))
    g3 = list(graphs(3))
    if tier == "quick":
        for _ in range(500):
            cases.append(("file", 3, rng.choice(g3), tuple(rng.choice(KINDS_FILE) for _ in range(3))))
        for _ in range(700):
            cases.append(("reg", 3, rng.choice(g3), tuple(rng.choice(KINDS_REG) for _ in range(3))))
        ctx.observed["exhaustive_nodes"] = 2
    else:
        for adj in g3:
            for kinds in itertools.product(KINDS_REG, repeat=3):
                cases.append(("reg", 3, adj, kinds))
        for _ in range(12000):
            cases.append(("file", 3, rng.choice(g3), tuple(rng.choice(KINDS_FILE) for _ in range(3))))
        g4 = None
        for _ in range(4000):
            adj = [[j for j in range(4) if rng.random() < 0.3] for i in range(4)]
            cases.append((rng.choice(["file", "reg"]), 4, adj, tuple(rng.choice(KINDS_REG) for _ in range(4))))
        ctx.observed["exhaustive_nodes"] = "2 (files, 6 kinds); 3 (registered sources, 3 kinds)"
    # long chains, long cycles, wide fans and lattices on 8-12 libraries
    for _ in range(40 if tier == "quick" else 600):
        n = rng.choice([8, 10, 12])
        shape = rng.randrange(5)
        adj = [[] for _ in range(n)]
        if shape in (0, 1):
            for i in range(n - 1):
                adj[i].append(i + 1)            # a chain a -> b -> ... ; shape 1 closes it into one long cycle
            if shape == 1:
                adj[n - 1].append(rng.choice([0, 0, n // 2]))
        elif shape == 2:
            adj[0] = list(range(1, n))          # a wide fan
        elif shape == 3:
            for i in range(n - 2):
                adj[i] += [i + 1, i + 2]        # a lattice: every library reached by many paths, no cycle
        else:
            for i in range(n):
                adj[i] = sorted(rng.sample(range(i + 1, n), min(n - i - 1, rng.randint(0, 3))))
            if rng.random() < 0.4:
                adj[n - 1].append(rng.randrange(n))
        kinds = ["healthy"] * n
        if rng.random() < 0.4:
            kinds[rng.randrange(n)] = rng.choice(KINDS_REG)
        cases.append((rng.choice(["file", "reg"]), n, adj, tuple(kinds)))
    ctx.rule = ("every directed graph (self loops included) on 1-2 libraries x every node-kind assignment (6 kinds for files, 3 for registered sources) x every history of 3 import "
                "attempts; 3 libraries: %s; %s. Libraries as files under a program directory while the process's working directory holds decoy libraries of the same names. "
                "distinct_nontrivial = distinct (mode, graph, kinds) cases whose every history agreed with the loader model"
                % ("all 512 graphs x 27 kind assignments of registered sources + 12000 sampled file cases" if tier != "quick" else "1200 sampled cases",
                   ("4 libraries sampled" if tier != "quick" else "no 4-library cases in quick") + "; chains, long cycles, fans and lattices on 8-12 libraries"))
    ctx.assumptions = ["any error kind among the faults reachable from the imported library is accepted; a cyclic-import error only if a cycle is reachable",
                       "import order inside a declaration follows the text"]
    leg = "dev" if tier == "quick" else "release"
    jobs, meta = [], []
    cases = core.mine(cases)
    for ci, (mode, n, adj, kinds) in enumerate(cases):
        d = None
        if mode == "file":
            d = os.path.join(root, "p%d" % ci)
            os.makedirs(os.path.join(d, "g"))
            for i in range(n):
                if kinds[i] != "missing":
                    open(os.path.join(d, "g", "%s.sld" % NAMES[i]), "wb").write(source(i, adj[i], kinds[i], ci))
            # the program directory is given absolute or relative to the process's working directory (which holds the decoys)
            spec = {"stdlib": False, "natives": False, "progdir": d if ci % 2 == 0 else os.path.relpath(d, decoy)}
        else:
            spec = {"stdlib": False, "natives": False,
                    "libs": [{"name": ["g", NAMES[i]], "src": source(i, adj[i], kinds[i], ci).decode()} for i in range(n) if kinds[i] != "missing"]}
            # registered-source mode must not fall back to files: run from an empty directory (the decoy dir has files, so use a spec progdir without any)
            spec["progdir"] = os.path.join(root, "empty")
        hist = list(itertools.product(range(n), repeat=3))
        if n >= 3 and len(hist) > 12:
            hist = rng.sample(hist, 12) if (tier == "quick" or n >= 5) else hist
        # some histories begin by importing (scheme base) into the program: what the program has bound must not change what a library body sees
        hist = list(hist) + [(-1,) + h[:2] for h in hist[:: max(1, len(hist) // 4)]]
        steps = []
        for h in hist:
            steps.append({"new": spec})
            for hi, x in enumerate(h):
                if x == -1:
                    steps.append({"it": -1, "src": "(import (scheme base))"}); steps.append({"it": -1, "env_names": True}); continue
                # the attempt itself is spelled as the plain name or through an import set that yields the same name
                sp = ["(g %s)", "(only (g %s) v%s)", "(except (g %s))", "(g %s)"][(ci + hi + x) % 4]
                steps.append({"it": -1, "src": "(import %s)" % (sp % ((NAMES[x],) * sp.count("%s")))})
                steps.append({"it": -1, "env_names": True})
        jobs.append({"id": "c14-%d" % ci, "interps": [], "steps": steps, "fuel": 50000}); meta.append((mode, n, adj, kinds, hist))
    os.makedirs(os.path.join(root, "empty"), exist_ok=True)
    # resolve "it": -1 -> index of the most recently created interpreter
    for job in jobs:
        k = -1
        for s in job["steps"]:
            if "new" in s:
                k += 1
            elif s.get("it") == -1:
                s["it"] = k
    try:
        recs = core.run_jobs(jobs, leg, timeout=900 if tier == "quick" else 3000, tag="c14", env_extra={"__cwd": decoy})
    finally:
        pass
    for (mode, n, adj, kinds, hist), rec, job in zip(meta, recs, jobs):
        desc_case = {"mode": mode, "adj": adj, "kinds": list(kinds)}
        if rec is None or "steps" not in rec:
            if rec and ("abort" in rec or "hang" in rec):
                ctx.violation({"what": "library loading did not terminate normally (process died or hung)", "kind": "termination", "case": desc_case,
                               "detail": rec.get("abort") or rec.get("hang")}, {"case": desc_case})
            else:
                ctx.inconclusive_cases += 1
            continue
        st = rec["steps"]
        pos = 0
        ok_case = True
        for h in hist:
            new = st[pos]; pos += 1
            if "ok" not in new:
                ctx.violation({"what": "interpreter with these libraries could not be created", "kind": "setup", "case": desc_case, "observed": new}, {"case": desc_case})
                ok_case = False; pos += 6; continue
            bound = set()
            base_imported = False
            for ai, x in enumerate(h):
                imp, names = st[pos], st[pos + 1]; pos += 2
                if x == -1:
                    base_imported = True
                    if "ok" not in imp:
                        ctx.violation({"what": "(import (scheme base)) failed", "kind": "outcome", "observed": imp, "dedupe": "base-import"}, {"case": desc_case})
                    continue
                ctx.evaluations += 1
                can, errs = reachable_outcomes(x, adj, kinds)
                kind, val = core.outcome(imp)
                d = dict(desc_case, history=[NAMES[y] if y >= 0 else "(scheme base)" for y in h], attempt=ai, imported=NAMES[x])
                if imp.get("inprog"):
                    ok_case = False
                    ctx.violation(dict(d, what="a library is still marked 'being imported' after the import returned", kind="inprogress", marks=imp["inprog"],
                                       dedupe="inprog"), {"case": d})
                if kind in ("panic", "abort"):
                    ok_case = False
                    ctx.violation(dict(d, what="import panicked", kind="panic", observed=val, dedupe="panic|%s" % kinds[x]), {"case": d}); continue
                if kind == "fuel":
                    ok_case = False
                    ctx.violation(dict(d, what="import did not finish within the step budget", kind="termination", dedupe="fuel"), {"case": d}); continue
                if can:
                    if kind != "ok":
                        ok_case = False
                        ctx.violation(dict(d, what="import of a healthy acyclic graph failed", kind="outcome", observed=val, first_attempt=(ai == 0),
                                           dedupe="fail|%s|%s" % (val.get("kind") if isinstance(val, dict) else "", ai == 0)), {"case": d})
                        continue
                    bound.add("v" + NAMES[x])
                    ctx.count("imports_succeeded")
                else:
                    if kind == "ok":
                        ok_case = False
                        ctx.violation(dict(d, what="import succeeded although a faulty library or a cycle is reachable", kind="outcome", expected=sorted(errs),
                                           dedupe="nofail|%s" % sorted(errs)), {"case": d})
                        continue
                    if not match_err(errs, val):
                        ok_case = False
                        ctx.violation(dict(d, what="import failed with an error kind not reachable in the graph", kind="errkind", expected=sorted(errs), observed=val.get("kind"),
                                           first_attempt=(ai == 0), dedupe="kind|%s|%s" % (val.get("kind"), sorted(errs))), {"case": d})
                        continue
                    ctx.count("imports_failed_as_expected")
                    ctx.count("errkind_" + val.get("kind", "?"))
                # names bound so far: exactly the exports of the libraries imported successfully (no leak of dependencies, no decoy values)
                kn, nv = core.outcome(names)
                got = set(nv.keys()) if kn == "ok" and isinstance(nv, dict) else None
                if base_imported and got is not None:
                    got = {k for k in got if k[:1] == "v" and k[1:] in NAMES}       # the names of (scheme base) are bound too; look at the libraries' exports only
                vals_ok = got is None or all(nv[k] == {"i": 10 + NAMES.index(k[1:])} for k in got if k[1:] in NAMES)
                if not vals_ok:
                    ok_case = False
                    ctx.violation(dict(d, what="an imported name has a value that no library of the program directory exports (loaded from elsewhere?)", kind="values",
                                       observed=nv, dedupe="values"), {"case": d})
                if got is not None and got != bound:
                    ok_case = False
                    ctx.violation(dict(d, what="names bound after the import differ from the exports of the libraries imported successfully", kind="names", expected=sorted(bound),
                                       observed=sorted(got), dedupe="names"), {"case": d})
        if ok_case:
            ctx.nontriv(json.dumps([mode, adj, kinds]))
    ctx.legs.append(leg)
    program_directories(ctx, root, decoy, leg)
    resupply(ctx, root, decoy, leg)
    macro_libraries(ctx, root, decoy, leg)
    multi_library_sources(ctx, root, decoy, leg)
    for (mode, n, adj, kinds, hist) in meta[:3] + meta[-2:]:
        ctx.sample({"mode": mode, "imports": {NAMES[i]: [NAMES[j] for j in adj[i]] for i in range(n)}, "kinds": list(kinds), "histories": len(hist)})
    shutil.rmtree(root, ignore_errors=True)
    return ctx.finish(min_evals=1000, min_nontrivial=100)


def replay(path):
    data = json.load(open(path))
    print(json.dumps(data["violation"], indent=1)[:2500])
    return 0

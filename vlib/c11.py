"""C11 - the list library computes what its specification says.
Monitor: random argument tuples per library procedure and random compositions are evaluated by the real interpreter;
values, error-vs-value and the tick trace of procedure arguments (once per element, in list order) are judged by a model
on Python lists."""
import json
from . import core, diff
from fractions import Fraction
from .sx import S, Sym, Char, Dot, Vec, Real, show, q, skeleton
from .ref_scheme import Machine, Strategy, SErr, OutOfModel

PID = "C11"
LEVEL = "exploration"
CXR = ["caar", "cadr", "cdar", "cddr", "caaar", "caadr", "cadar", "caddr", "cdaar", "cdadr", "cddar", "cdddr"]


# numbers that are "the same" under a sloppy comparison: equal value but different exactness, or different ratios with equal numerator*denominator
TWINS = [[2, Real.of(2.0)], [Fraction(1, 2), Real.of(0.5)], [Fraction(2, 3), Fraction(3, 2), Fraction(1, 6), 6], [Fraction(4, 3), Fraction(3, 4), Fraction(1, 12), 12],
         [0, Real.of(0.0)], [Fraction(-2, 3), Fraction(-3, 2)], [Real.of(1.5), Fraction(3, 2)], [1, Real.of(1.0)], [Fraction(-1, 2), Fraction(1, 2)]]


# data of different kinds that are spelled or printed alike
LOOKALIKE = [[S("a"), "a", Char("a")], [S("b"), "b", Char("b")], [S("x"), "x"], [1, "1", Char("1")], [S("t"), True, "t"], [[], "()"], [S("s"), "s"], [0, False, "0"], [S("nil"), [], "nil"]]
# procedures of the list library (written in Scheme, many with the same parameter list) and natives: all behave differently, so no two are eqv?
PROCS = ["cadr", "caar", "cddr", "cdar", "caddr", "cdddr", "list-tail", "list-ref", "map", "for-each", "fold-left", "fold-right", "append", "memq", "memv", "last-pair", "equal?",
         "list?", "make-list", "car", "cdr", "cons", "null?", "pair?", "list"]


def lookalike_of(x, rng):
    fam = [f for f in LOOKALIKE if any(type(y) == type(x) and y == x for y in f)]
    if not fam:
        return None
    others = [y for y in rng.choice(fam) if not (type(y) == type(x) and y == x)]
    return rng.choice(others) if others else None


def twin_of(x, rng):
    fam = [f for f in TWINS if any(type(y) == type(x) and (y.bits == x.bits if isinstance(y, Real) else y == x) for y in f)]
    if not fam:
        return None
    f = rng.choice(fam)
    others = [y for y in f if not (type(y) == type(x) and (y.bits == x.bits if isinstance(y, Real) else y == x))]
    return rng.choice(others) if others else None


class Gen:
    def __init__(self, rng):
        self.rng = rng
        self.k = 0

    def atom(self):
        r = self.rng
        if r.random() < 0.12:
            return r.choice(r.choice(TWINS))
        if r.random() < 0.1:
            return r.choice(r.choice(LOOKALIKE))
        return r.choice([r.randint(-3, 9), r.randint(-3, 9), S(r.choice("abcxyz")), r.random() < 0.5, Char(r.choice("abc")), r.choice(["s", "t", ""])])

    def datum(self, depth, maxlen=12, improper=0.0):
        r = self.rng
        if depth <= 0 or r.random() < 0.45:
            return self.atom()
        n = r.choice([0, 1, 2, 3, 3, 4, 5, maxlen])
        items = [self.datum(depth - 1, min(maxlen, 4)) for _ in range(n)]
        if items and r.random() < improper:
            return Dot(items, self.atom())
        return items

    def lst(self, depth=2, maxlen=12, improper=0.0, minlen=0):
        r = self.rng
        n = r.choice([0, 1, 2, 3, 4, 5, 7, maxlen])
        if r.random() < 0.04:
            n = r.choice([64, 150, 400])         # long lists: the library procedures are written recursively in Scheme
        n = max(n, minlen)
        items = [self.datum(depth - 1, 4) for _ in range(n)]
        if items and r.random() < improper:
            return Dot(items, self.atom())
        return items

    def ints(self, maxlen=12):
        r = self.rng
        n = r.choice([0, 1, 2, 3, 5, maxlen])
        if r.random() < 0.04:
            n = r.choice([64, 150, 400])
        return [r.randint(-5, 9) for _ in range(n)]

    def deep(self, n):
        """a list on which c[ad]{2,3}r paths of length n exist (sometimes not: the too-short case)"""
        r = self.rng
        if n <= 0 or r.random() < 0.12:
            return self.datum(1)
        return Dot([self.deep(n - 1)], self.deep(n - 1)) if r.random() < 0.3 else [self.deep(n - 1)] + [self.deep(n - 1) for _ in range(r.randint(0, 2))]

    def ticker(self, body_of_x):
        """(lambda (x) (tick K body)) with a fresh tick id per call site; the tick key is the element itself"""
        return [S("lambda"), [S("x")], [S("tick"), S("x"), body_of_x]]

    def call(self):
        r = self.rng
        p = r.choice(["car", "cdr", "cons", "cxr", "cxr", "list", "make-list", "null?", "pair?", "list?", "append", "append", "map", "for-each",
                      "fold-left", "fold-right", "list-tail", "list-ref", "last-pair", "memq", "memv", "equal?", "apply", "compose", "compose"])
        if p in ("car", "cdr"):
            return [S(p), q(self.lst(2, improper=0.3))] if r.random() < 0.85 else [S(p), q(self.atom())]
        if p == "cons":
            return [S("cons"), q(self.datum(2)), q(self.datum(2, improper=0.2))]
        if p == "cxr":
            name = r.choice(CXR)
            return [S(name), q(self.deep(len(name) - 2))]
        if p == "list":
            return [S("list")] + [q(self.datum(2)) for _ in range(r.randint(0, 5))]
        if p == "make-list":
            return [S("make-list"), r.choice([0, 1, 2, 5, 12]), q(self.datum(1))]
        if p in ("null?", "pair?", "list?"):
            return [S(p), q(self.datum(3, improper=0.4))]
        if p == "append":
            n = r.randint(0, 4)
            args = [q(self.lst(2)) for _ in range(n)]
            if args and r.random() < 0.3:
                args[-1] = q(self.datum(2, improper=0.5))       # the last argument may be any object
            return [S("append")] + args
        if p == "map":
            f = self.ticker(r.choice([[S("+"), S("x"), 1], [S("*"), S("x"), S("x")], [S("list"), S("x")], S("x")]))
            if r.random() < 0.2:
                # n-ary map / for-each (R7RS domain): lists of different lengths, ticking procedure
                k = r.randint(2, 3)
                ps = [S("x"), S("y"), S("z")][:k]
                fn = [S("lambda"), ps, [S("tick"), S("x"), [S("list")] + ps]] if r.random() < 0.6 else S(r.choice(["+", "list", "max"]))
                return [S(r.choice(["map", "map", "for-each"])), fn] + [q(self.ints(5)) for _ in range(k)]
            return [S("map"), f, q(self.ints())]
        if p == "for-each":
            return [S("for-each"), self.ticker(S("x")), q(self.ints())]
        if p in ("fold-left", "fold-right"):
            f = r.choice([[S("lambda"), [S("e"), S("acc")], [S("tick"), S("e"), [S("cons"), S("e"), S("acc")]]],
                          [S("lambda"), [S("e"), S("acc")], [S("tick"), S("e"), [S("-"), S("e"), S("acc")]]], S("cons"), S("+")])
            init = q([]) if (f == S("cons") or (isinstance(f, list) and f[2][2][0] == S("cons"))) else r.randint(0, 5)
            return [S(p), f, init, q(self.ints())]
        if p in ("list-tail", "list-ref"):
            l = self.lst(2, improper=0.15 if p == "list-tail" else 0.0)
            n = len(l.items) if isinstance(l, Dot) else len(l)
            k = r.choice([-1, 0, 0, 1, n - 1, n - 1, n, n + 1, r.randint(0, max(0, n))])
            return [S(p), q(l), k]
        if p == "last-pair":
            return [S("last-pair"), q(self.lst(2, improper=0.3))]
        if p in ("memq", "memv"):
            l = [r.choice([1, 2, 3, S("a"), S("b"), True, False, Char("a")]) for _ in range(r.randint(0, 8))]
            x = r.choice(l) if l and r.random() < 0.7 else r.choice([9, S("z"), False])
            if r.random() < 0.15:
                # the key among data that are spelled like it but of another kind
                fam = r.choice(LOOKALIKE)
                x = r.choice(fam)
                l = [r.choice(fam + [S("z"), 5]) for _ in range(r.randint(0, 6))]
                if isinstance(x, str):
                    l = [y for y in l if not (isinstance(y, str) and y == x)]      # eqv? of two equal string literals is unspecified in R7RS: keep that out
                return [S(p), q(x), q(l)]
            if r.random() < 0.08:
                # one vector object (a constant or a constructed one) bound once and looked for among list elements: the same object is always found
                vexpr = r.choice([q(Vec([1, 2])), Vec([1, 2]), [S("vector"), 1, 2], q(Vec([]))])
                els = [r.choice([S("v"), q(S("a")), 1, q(Vec([1, 2])), [S("vector"), 1, 2]]) for _ in range(r.randint(0, 5))]
                return [[S("lambda"), [S("v")], [S("list"), [S(p), S("v"), [S("list")] + els], [S("equal?"), [S("list"), 1, S("v")], [S("list"), 1, S("v")]], [S("eqv?"), S("v"), S("v")]]], vexpr]
            if r.random() < 0.15:
                # procedures as data: the result is looked at through its position only (procedures do not print)
                ps = [S(n) for n in r.sample(PROCS, r.randint(2, 6))]
                key = r.choice(ps + [S(r.choice(PROCS))])
                return [[S("lambda"), [S("r")], [S("if"), S("r"), [S("list"), [S("null?"), [S("cdr"), S("r")]], [S("pair?"), [S("cdr"), S("r")]], [S("eqv?"), [S("car"), S("r")], key]], q(S("absent"))]],
                        [S(p), key, [S("list")] + ps]]
            if p == "memv" and r.random() < 0.35:
                # numbers: memv compares exactness and value; the list holds twins of the key in front of it
                fam = r.choice(TWINS)
                x = r.choice(fam)
                l = [r.choice(fam + [S("a"), 5]) for _ in range(r.randint(0, 6))]
            return [S(p), q(x), q(l)]
        if p == "equal?" and r.random() < 0.12:
            ps = [r.choice(PROCS) for _ in range(r.randint(1, 4))]
            qs = list(ps)
            if r.random() < 0.6:
                qs[r.randrange(len(qs))] = r.choice(PROCS)
            return [S("equal?"), [S("list"), 1] + [S(n) for n in ps], [S("list"), 1] + [S(n) for n in qs]]
        if p == "equal?":
            a = self.datum(3, improper=0.2)
            b = a if r.random() < 0.5 else self.mutate(a)
            return [S("equal?"), q(a), q(b)]
        if p == "apply":
            return r.choice([[S("apply"), S("list"), 1, 2, q(self.ints(4))], [S("apply"), S("append"), q([self.ints(3), self.ints(3)])],
                             [S("apply"), S("cons"), q([1, [2]])], [S("apply"), S("map"), [S("list"), self.ticker(S("x")), q(self.ints(5))]],
                             [S("apply"), S("+"), q(self.ints(6))], [S("apply"), S("list-tail"), q([[1, 2, 3], 1])],
                             # the spread list is too long or too short for the procedure: an error, as for the direct call
                             [S("apply"), S(r.choice(["cons", "car", "cdr", "null?", "pair?"])), q([[1, 2]] + self.ints(3))],
                             [S("apply"), S(r.choice(["cons", "car", "list-tail", "list-ref"])), 1, q([])],
                             [S("apply"), S(r.choice(["memq", "memv", "list-ref"])), q(S("a")), q([[S("a")], 3, 4])]])
        return self.compose(r.randint(2, 4))

    def mutate(self, d):
        r = self.rng
        if isinstance(d, list) and d:
            c = list(d); i = r.randrange(len(c))
            k = r.random()
            if k < 0.3:
                del c[i]
            elif k < 0.6:
                c[i] = self.mutate(c[i])
            else:
                c.insert(i, self.atom())
            return c
        if isinstance(d, Dot):
            return Dot(d.items, self.atom()) if r.random() < 0.5 else list(d.items)
        if isinstance(d, (int, Fraction, Real)) and not isinstance(d, bool):
            t = twin_of(d, r)
            if t is not None and r.random() < 0.5:
                return t
        t = lookalike_of(d, r)
        if t is not None and r.random() < 0.6:
            return t
        return self.atom()

    def compose(self, depth):
        """a composition of library calls producing a list of ints"""
        r = self.rng
        if depth <= 0:
            return q(self.ints(6))
        c = r.randrange(9)
        sub = lambda: self.compose(depth - 1)
        if c == 0:
            return [S("append"), sub(), sub()]
        if c == 1:
            return [S("map"), self.ticker([S("+"), S("x"), r.randint(1, 3)]), sub()]
        if c == 2:
            return [S("cons"), r.randint(0, 9), sub()]
        if c == 3:
            return [S("list-tail"), sub(), r.randint(0, 2)]
        if c == 4:
            return [S("fold-right"), S("cons"), q([]), sub()]
        if c == 5:
            return [S("fold-left"), S("cons"), q([]), sub()]
        if c == 6:
            return [S("cdr"), sub()]
        if c == 7:
            return [S("apply"), S("list"), sub()]
        return [S("list"), [S("apply"), S("+"), sub()], [S("car"), sub()]]


def expect(form):
    m = Machine(Strategy())
    try:
        v = m.eval_toplevel(form)
        return ("ok", diff.freeze(v), list(m.trace), "")
    except SErr as e:
        return ("err", "other", list(m.trace), "")     # any error kind: the statement only demands "an error rather than a value"


def nary_map(form):
    return isinstance(form, list) and form and form[0] in (S("map"), S("for-each")) and len(form) > 3


def run(tier, seed):
    ctx = core.Ctx(PID, tier, seed, LEVEL)
    n = 15000 if tier == "quick" else core.share(2400000)
    legs = ["dev"] if tier == "quick" else ["dev", "release"]
    ctx.rule = ("random argument tuples per library procedure (lists to length 12, nesting to 3, improper tails where the specification allows them, indices "
                "-1..len+1, too-short lists for c[ad]{2,3}r / list-tail / list-ref / last-pair, ticking procedure arguments) and random compositions of library "
                "calls to depth 4. distinct_nontrivial = distinct (procedure, argument shape skeleton, outcome kind) combinations judged")
    ctx.assumptions = ["folds use the minischeme argument order (element accumulator), as the statement says", "when the model raises an error any error kind is accepted",
                       "map/for-each must call their procedure in list order (the statement's wording; R7RS leaves map's order open)"]
    g = Gen(ctx.rng)
    forms = []
    while len(forms) < n:
        f = g.call()
        try:
            e = expect(f)
        except (OutOfModel, RecursionError):
            ctx.count("generated_discarded"); continue
        forms.append((f, e))
    per = 300
    for leg in legs:
        jobs = []
        for k in range(0, len(forms), per):
            jobs.append({"id": "c11-%d" % k, "interps": [{"stdlib": True}], "steps": [{"src": show(f)} for f, e in forms[k:k + per]], "fuel": 100000})
        for ji, j in enumerate(jobs):
            if ji % 3 == 1:
                diff.age(j, ctx.rng, ctx.rng.choice([50, 300]))
        recs = core.run_jobs(jobs, leg, timeout=600 if tier == "quick" else 3000, tag="c11")
        for k, rec in zip(range(0, len(forms), per), recs):
            chunk = forms[k:k + per]
            if rec is None or "steps" not in rec:
                ctx.inconclusive_cases += len(chunk)
                if rec and "abort" in rec:
                    ctx.violation({"what": "process died in the list library", "kind": "abort", "abort": rec["abort"]}, {"forms": [show(f) for f, e in chunk][:50]})
                continue
            for (f, e), s in zip(chunk, rec["steps"]):
                ctx.evaluations += 1
                why = diff.step_matches(e, s)
                head = f[0].name if isinstance(f[0], Sym) else "?"
                ctx.count("calls_" + head)
                if why is None:
                    ctx.nontriv("%s|%s|%s" % (head, skeleton(f)[:80], e[0]))
                    if e[0] == "err":
                        ctx.count("too_short_or_out_of_domain_rejected")
                    continue
                if why == "fuel":
                    ctx.inconclusive_cases += 1; continue
                desc = {"what": "list library result differs from its specification", "kind": "list", "proc": head, "form": show(f), "why": why[:300], "leg": leg,
                        "nary": nary_map(f), "dedupe": "%s|%s" % (head, why[:25])}
                ctx.violation(desc, {"form": show(f), "observed": diff.trim(s), "leg": leg})
        ctx.legs.append(leg)
    for f, e in forms[:5]:
        ctx.sample({"form": show(f), "expected": e[0]})
    return ctx.finish(min_evals=1000, min_nontrivial=100)


def replay(path):
    from . import sxread
    data = json.load(open(path))
    f = sxread.parse_one(data["replay"]["form"])
    rec = core.run_jobs([{"id": "r", "interps": [{"stdlib": True}], "steps": [{"src": show(f)}]}], data["replay"].get("leg", "dev"), shards=1, timeout=60)[0]
    why = diff.step_matches(expect(f), rec["steps"][0])
    print(show(f), "->", json.dumps(rec["steps"][0])[:600], "|", why)
    return 0 if why is None else 1

"""C12 - import sets bind exactly the names the import-set algebra yields.
Exhaustive: every admissible import-set term up to a nesting depth over a 4-export library (only/except over every subset,
two prefixes, every partial injective renaming of <= 2 names incl. swaps and chains), observed through the eval_import API
into a fresh environment (exact set of names + values), a sample through `(import ...)` text, each term in several
processes/threads (different hash seeds).  Oracle: import-set algebra on name->value maps."""
import itertools, json
from . import core
from .sx import show

PID = "C12"
LEVEL = "exploration"
EXPORTS = {"a": 1, "b": 2, "xa": 3, "d": 4}
PREFIXES = ["x", "p-"]
FRESH = ["n1", "n2"]
LIBN = ["t", "lib"]
LIBS = ["s", "lib"]
SRC = "(define-library (s lib) (export a b xa d) (begin (define a 1) (define b 2) (define xa 3) (define d 4)))"
# a library exporting the same names with values that are numerically equal to the first one's but not the same (inexact)
TWIN = ["s", "twin"]
TWIN_SRC = "(define-library (s twin) (export a b xa d) (begin (define a 1.0) (define b 2.0) (define xa 3.0) (define d 4.0)))"
# a library with many exports, for long identifier and rename lists
BIG = ["s", "big"]
BIG_EXPORTS = {"e%d" % i: 1000 + i for i in range(60)}
BIG_SRC = "(define-library (s big) (export %s) (begin %s))" % (" ".join(BIG_EXPORTS), " ".join("(define %s %d)" % kv for kv in BIG_EXPORTS.items()))
ODD = ["s", "odd"]
# exports whose values are not equal to themselves under = / equal?-style comparison or cannot be compared structurally at all: an inexact NaN, a procedure,
# a vector, a vector that contains itself; `which` names the export a value is (by identity)
ODD_SRC = ("(define-library (s odd) (import (scheme base)) (export a b xa d) (begin (define a (/ 0. 0.)) (define (b x) x) (define xa (vector 1 2)) "
           "(define d (vector 0)) (vector-set! d 0 d)))")
ODDW = ["s", "oddw"]
ODDW_SRC = ("(define-library (s oddw) (import (scheme base) (s odd)) (export which) (begin "
           "(define (which x) (cond ((eq? x b) 'b) ((eq? x xa) 'xa) ((eq? x d) 'd) ((and (number? x) (not (= x x))) 'a) (else 'other)))))")
ODD_EXPORTS = {"a": "a", "b": "b", "xa": "xa", "d": "d"}
TWIN_EXPORTS = {"a": ("r", 0x3f800000), "b": ("r", 0x40000000), "xa": ("r", 0x40400000), "d": ("r", 0x40800000)}


# ---------------------------------------------------------------- the reference algebra
def ev(term, base=None):
    """name -> value map of a term (python model). term: ('lib',) | ('only', t, ids) | ('except', t, ids) | ('prefix', t, p) | ('rename', t, pairs)"""
    k = term[0]
    if k == "lib":
        return dict(base if base is not None else EXPORTS)
    m = ev(term[1], base)
    if k == "only":
        return {n: v for n, v in m.items() if n in term[2]}
    if k == "except":
        return {n: v for n, v in m.items() if n not in term[2]}
    if k == "prefix":
        return {term[2] + n: v for n, v in m.items()}
    if k == "rename":
        ren = dict(term[2])
        return {ren.get(n, n): v for n, v in m.items()}
    raise ValueError(k)


def depth_of(term):
    return 0 if term[0] == "lib" else 1 + depth_of(term[1])


def children(term, rng):
    """all admissible one-step extensions of a term"""
    names = sorted(ev(term))
    out = []
    for r in range(len(names) + 1):
        for sub in itertools.combinations(names, r):
            ids = list(sub)
            rng.shuffle(ids)                      # identifier lists are written in arbitrary order
            out.append(("only", term, tuple(ids)))
            ids2 = list(sub); rng.shuffle(ids2)
            out.append(("except", term, tuple(ids2)))
    for p in PREFIXES:
        out.append(("prefix", term, p))
    targets = names + FRESH
    for k in (1, 2):
        for srcs in itertools.permutations(names, k):
            if list(srcs) != sorted(srcs) and k == 2 and rng.random() < 0.5:
                pass
            for tg in itertools.permutations(targets, k):
                if any(s == t for s, t in zip(srcs, tg)):
                    continue
                ren = dict(zip(srcs, tg))
                res = [ren.get(n, n) for n in names]
                if len(set(res)) != len(res):
                    continue                      # not admissible: two bindings would get one name
                if k == 2 and srcs[0] > srcs[1]:
                    continue                      # unordered pair of sources counted once; written order shuffled below
                pairs = list(zip(srcs, tg)); rng.shuffle(pairs)
                out.append(("rename", term, tuple(pairs)))
    return out


def with_repeats(ids):
    """an identifier may be written more than once in an only/except list: the list denotes a set (deterministic per list)"""
    ids = list(ids)
    h = sum(len(x) * 7 + ord(x[0]) for x in ids) + len(ids)
    if ids and h % 5 == 0:
        ids.insert(h % (len(ids) + 1), ids[h % len(ids)])
    return ids


def to_json(term, lib):
    k = term[0]
    if k == "lib":
        return {"lib": lib}
    if k in ("only", "except"):
        return {k: [to_json(term[1], lib), with_repeats(term[2])]}
    if k == "prefix":
        return {"prefix": [to_json(term[1], lib), term[2]]}
    return {"rename": [to_json(term[1], lib), [list(p) for p in term[2]]]}


def to_text(term, lib):
    k = term[0]
    if k == "lib":
        return "(%s)" % " ".join(lib)
    if k in ("only", "except"):
        return "(%s %s %s)" % (k, to_text(term[1], lib), " ".join(with_repeats(term[2])))
    if k == "prefix":
        return "(prefix %s %s)" % (to_text(term[1], lib), term[2])
    return "(rename %s %s)" % (to_text(term[1], lib), " ".join("(%s %s)" % p for p in term[2]))


def shape(term):
    k = term[0]
    if k == "lib":
        return "L"
    if k in ("only", "except"):
        return "%s%d(%s)" % (k[0], len(term[2]), shape(term[1]))
    if k == "prefix":
        return "p(%s)" % shape(term[1])
    kinds = "".join("s" if (b, a) in term[2] else ("c" if any(b == x for x, _ in term[2]) else "r") for a, b in term[2])
    return "r%s(%s)" % (kinds, shape(term[1]))


def observed_map(step):
    kind, val = core.outcome(step)
    if kind != "ok" or not isinstance(val, dict):
        return None
    out = {}
    for n, v in val.items():
        out[n] = v.get("i") if isinstance(v, dict) and "i" in v else (("r", v["r"]) if isinstance(v, dict) and "r" in v else ("?", json.dumps(v)[:40]))
    return out


def run(tier, seed):
    ctx = core.Ctx(PID, tier, seed, LEVEL)
    rng = ctx.rng
    depth = 3
    d3_sample = 20000 if tier == "quick" else core.share(1000000)
    replicas = 2 if tier == "quick" else 4
    level = [("lib",)]
    terms = [("lib",)]
    for d in range(depth):
        nxt = []
        for t in level:
            nxt += children(t, rng)
        if d == 2:
            # depth 3: all children of a seeded sample of depth-2 terms would be ~10^6; keep a large sample
            rng.shuffle(nxt); nxt = nxt[:d3_sample]
        terms += nxt
        level = nxt if d < 1 else rng.sample(nxt, min(len(nxt), 2500))
    small_terms = [t for t in terms if depth_of(t) <= 2]
    if core.PART_I > 0:
        # the exhaustive depth <= 2 terms belong to part 0; the other parts explore their own samples of depth 3
        terms = [t for t in terms if depth_of(t) >= 3]
    ctx.exhaustive = False
    ctx.observed["exhaustive_to_depth"] = 2
    ctx.observed["terms"] = len(terms)
    ctx.rule = ("every admissible import-set term of nesting depth <= %d over a library exporting a b xa d (only/except with every subset of the current names in "
                "arbitrary written order, prefixes x and p-, every partial injective renaming of <= 2 names onto existing or fresh names incl. swaps and chains)%s; "
                "each term evaluated %d times in different threads/processes through eval_import into a fresh environment, native and Scheme-source library alternately; "
                "a sample also as (import ...) text on a fresh interpreter and as declarations of two sets. distinct_nontrivial = distinct term shapes "
                "(operator nesting, identifier-list lengths, rename kind swap/chain/plain)" % (depth, " (depth <= 2 exhaustive, depth 3: %d sampled)" % d3_sample, replicas))
    ctx.assumptions = ["admissible terms only: identifiers present, resulting names unique"]
    leg = "dev" if tier == "quick" else "release"
    interp = {"stdlib": False, "natives": False, "libs": [{"name": LIBN, "native": [[n, v] for n, v in EXPORTS.items()]}, {"name": LIBS, "src": SRC}, {"name": TWIN, "src": TWIN_SRC}, {"name": BIG, "src": BIG_SRC}, {"name": ODD, "src": ODD_SRC}, {"name": ODDW, "src": ODDW_SRC}]}
    per = 400
    jobs, meta = [], []
    for rep in range(replicas):
        order = list(range(len(terms)))
        rng.shuffle(order)
        for k in range(0, len(order), per):
            idx = order[k:k + per]
            # through eval_import, or as an import statement given to eval_ast with the environment it is meant for
            steps = [{"import": to_json(terms[i], LIBN if (i + rep) % 2 == 0 else LIBS), "fresh_env": True, "via_ast": (i + rep) % 3 == 0} for i in idx]
            jobs.append({"id": "c12-%d-%d" % (rep, k), "interps": [interp], "steps": steps, "fuel": 100000}); meta.append(idx)
    recs = core.run_jobs(jobs, leg, timeout=900 if tier == "quick" else 3000, tag="c12")
    seen = {}
    for idx, rec, job in zip(meta, recs, jobs):
        if rec is None or "steps" not in rec:
            ctx.inconclusive_cases += len(idx)
            if rec and "abort" in rec:
                ctx.violation({"what": "process died evaluating an import set", "kind": "abort"}, {"job_id": job["id"], "abort": rec["abort"]})
            continue
        for i, s in zip(idx, rec["steps"]):
            ctx.evaluations += 1
            exp = ev(terms[i])
            got = observed_map(s)
            txt = to_text(terms[i], LIBN)
            if got != exp:
                ctx.violation({"what": "import set binds other names/values than the import-set algebra yields", "kind": "import", "term": txt, "expected": exp,
                               "observed": got if got is not None else s, "dedupe": shape(terms[i])}, {"term": txt, "json": to_json(terms[i], LIBN)})
            else:
                ctx.nontriv(shape(terms[i]))
            key = json.dumps(got, sort_keys=True) if got is not None else json.dumps(s, sort_keys=True)[:200]
            if i in seen and seen[i] != key:
                ctx.violation({"what": "the same import set gave different outcomes in different runs", "kind": "nondeterministic", "term": txt, "one": seen[i], "other": key,
                               "dedupe": "nd|" + shape(terms[i])}, {"term": txt})
            seen.setdefault(i, key)
            ctx.count("api_imports")
    ctx.legs.append(leg + ":eval_import")
    # (import ...) text on fresh interpreters, single sets and declarations of two sets with disjoint result names
    sample = rng.sample(range(len(terms)), min(len(terms), 1500 if tier == "quick" else core.share(20000)))
    jobs, meta = [], []
    for i in sample:
        t1 = terms[i]
        decl = [t1]
        if rng.random() < 0.5:
            t2 = terms[rng.choice(sample)]
            if not (set(ev(t1)) & set(ev(t2))):
                decl.append(t2)
        text = "(import %s)" % " ".join(to_text(t, LIBS if j % 2 else LIBN) for j, t in enumerate(decl))
        jobs.append({"id": "c12t", "interps": [interp], "steps": [{"src": text}, {"env_names": True}], "fuel": 100000}); meta.append((decl, text))
    recs = core.run_jobs(jobs, leg, timeout=900, tag="c12t")
    for (decl, text), rec in zip(meta, recs):
        if rec is None or "steps" not in rec:
            ctx.inconclusive_cases += 1; continue
        ctx.evaluations += 1
        exp = {}
        for t in decl:
            exp.update(ev(t))
        k0, v0 = core.outcome(rec["steps"][0])
        got = observed_map(rec["steps"][1])
        if k0 != "ok" or got != exp:
            ctx.violation({"what": "(import ...) declaration binds other names/values than the algebra yields", "kind": "import-text", "text": text, "expected": exp,
                           "observed": got, "import_outcome": rec["steps"][0], "dedupe": "text|" + "+".join(shape(t) for t in decl)}, {"text": text})
        else:
            ctx.count("text_imports"); ctx.count("text_imports_%d_sets" % len(decl))
    ctx.legs.append(leg + ":import-text")
    # histories of two or three declarations on ONE environment: a later declaration binds names an earlier one bound, to values of the twin
    # library (numerically equal, inexact) or of the same library under other names; after each declaration the names it yields have ITS values
    jobs, meta = [], []
    small = small_terms
    for _ in range(1500 if tier == "quick" else core.share(20000)):
        decls = []
        for j in range(rng.choice([2, 2, 3])):
            t = rng.choice(small if rng.random() < 0.7 else terms)
            which = rng.choice(["lib", "twin", "twin"]) if j else rng.choice(["lib", "lib", "twin"])
            decls.append((t, which))
        lib_for = rng.choice([LIBN, LIBS])
        if rng.random() < 0.2:
            # the WHOLE library by its bare name, then another declaration that binds some of its names to other values, then the whole library once more (the
            # same library, a successful import each time): its names have its values again
            mid = rng.choice([t for t in small if t[0] in ("rename", "prefix", "only")] or small)
            decls = [(("lib",), "lib"), (mid, rng.choice(["twin", "lib"])), (("lib",), "lib")]
            texts = ["(import %s)" % to_text(t, TWIN if w == "twin" else lib_for) for t, w in decls]
        else:
            texts = ["(import %s)" % to_text(t, TWIN if w == "twin" else rng.choice([LIBN, LIBS])) for t, w in decls]
        # a declaration may carry a further import set that fails (a library that does not exist): the declaration as a whole fails and binds nothing
        failing = [False] * len(decls)
        for j in range(len(decls)):
            if rng.random() < 0.2:
                failing[j] = True
                texts[j] = texts[j][:-1] + " " + rng.choice(["(s nosuch)", "(only (no lib) q)", "(prefix (s nosuch) z-)"]) + ")"
        steps = []
        for tx in texts:
            steps += [{"src": tx}, {"env_names": True}]
        jobs.append({"id": "c12h", "interps": [interp], "steps": steps, "fuel": 100000}); meta.append((decls, texts, failing))
    recs = core.run_jobs(jobs, leg, timeout=900, tag="c12h")
    for (decls, texts, failing), rec in zip(meta, recs):
        if rec is None or "steps" not in rec:
            ctx.inconclusive_cases += 1; continue
        ctx.evaluations += 1
        exp = {}
        bad = None
        for j, (t, w) in enumerate(decls):
            if not failing[j]:
                exp.update(ev(t, TWIN_EXPORTS if w == "twin" else EXPORTS))
            k0, v0 = core.outcome(rec["steps"][2 * j])
            got = observed_map(rec["steps"][2 * j + 1])
            if (k0 == "ok") == failing[j] or got != exp:
                bad = (j, got, rec["steps"][2 * j]); break
            if failing[j]:
                ctx.count("failing_declarations_bind_nothing")
        if bad:
            j, got, st = bad
            ctx.violation({"what": ("a declaration with a failing import set did not fail as a whole or left bindings behind" if failing[j] else
                                    "after a later import declaration on the same environment the names it yields are not bound to the values of ITS library"), "kind": "import-history",
                           "declarations": texts[:j + 1], "expected": {k: str(v) for k, v in exp.items()}, "observed": {k: str(v) for k, v in (got or {}).items()} if got is not None else None,
                           "import_outcome": st if "ok" not in st else "ok", "dedupe": "hist|%d" % j}, {"texts": texts})
        else:
            ctx.count("import_histories"); ctx.nontriv("H|" + "+".join(shape(t) + w[0] for t, w in decls)[:80])
    ctx.legs.append(leg + ":import-histories")
    # OVERLAPPING import sets in one declaration: the same export of the same library reaches the environment along several paths (that is a consistent
    # union, whatever the value is: a NaN, a procedure, a vector, a vector containing itself); every resulting name must be the export the algebra says, by identity
    jobs, meta = [], []
    for _ in range(800 if tier == "quick" else core.share(12000)):
        for attempt in range(20):
            decl = [rng.choice(small_terms) for _ in range(rng.choice([2, 2, 3, 4]))]
            exp, ok, overlap = {}, True, 0
            for t in decl:
                for n, o in ev(t, ODD_EXPORTS).items():
                    if n in exp:
                        overlap += 1
                        ok = ok and exp[n] == o
                    exp[n] = o
            if ok and overlap and exp:
                break
        else:
            continue
        text = "(import %s (s oddw))" % " ".join(to_text(t, ODD) for t in decl)
        names = sorted(exp)
        jobs.append({"id": "c12o", "interps": [interp], "steps": [{"src": text}, {"env_names": True}] + [{"src": "(which %s)" % n} for n in names], "fuel": 100000})
        meta.append((decl, text, exp, names))
    recs = core.run_jobs(jobs, leg, timeout=900, tag="c12o")
    for (decl, text, exp, names), rec in zip(meta, recs):
        if rec is None or "steps" not in rec:
            ctx.inconclusive_cases += 1; continue
        ctx.evaluations += 1
        st = rec["steps"]
        k0, v0 = core.outcome(st[0])
        got = observed_map(st[1])
        got_names = sorted(n for n in (got or {}) if n != "which")
        which = [core.outcome(x) for x in st[2:]]
        seen_as = [(v.get("y") if isinstance(v, dict) else None) if k == "ok" else k for k, v in which]
        if k0 != "ok" or got_names != names or seen_as != [exp[n] for n in names]:
            ctx.violation({"what": "a declaration whose import sets overlap in the SAME export does not bind the union the algebra yields (each name to the export it denotes)", "kind": "import-overlap",
                           "text": text, "expected": exp, "observed_names": got_names, "observed_exports": seen_as, "import_outcome": st[0] if k0 != "ok" else "ok",
                           "dedupe": "overlap|%s" % (k0 == "ok")}, {"text": text})
        else:
            ctx.count("overlapping_declarations"); ctx.nontriv("O|" + "+".join(shape(t) for t in decl)[:80])
    ctx.legs.append(leg + ":overlapping-import-sets")
    # long identifier lists and rename lists over a library with 60 exports
    jobs, meta = [], []
    for _ in range(60 if tier == "quick" else core.share(1200)):
        names = sorted(BIG_EXPORTS)
        t = ("lib",)
        for _d in range(rng.randint(1, 3)):
            cur = sorted(ev(t, BIG_EXPORTS))
            if not cur:
                break
            k = rng.choice(["only", "except", "prefix", "rename"])
            if k in ("only", "except"):
                ids = rng.sample(cur, rng.choice([len(cur), len(cur) - 1, len(cur) // 2, min(len(cur), 30)]))
                t = (k, t, tuple(ids))
            elif k == "prefix":
                t = ("prefix", t, rng.choice(PREFIXES))
            else:
                srcs = rng.sample(cur, min(len(cur), rng.choice([5, 20, len(cur)])))
                # a permutation of the chosen names among themselves (long chains and cycles), or fresh names
                tg = srcs[1:] + srcs[:1] if rng.random() < 0.5 else ["fresh%d-%d" % (_d, i) for i in range(len(srcs))]      # admissible: no two bindings get one name
                t = ("rename", t, tuple(zip(srcs, tg)))
        text = "(import %s)" % to_text(t, BIG)
        jobs.append({"id": "c12b", "interps": [interp], "steps": [{"src": text}, {"env_names": True}], "fuel": 100000}); meta.append((t, text))
    recs = core.run_jobs(jobs, leg, timeout=900, tag="c12b")
    for (t, text), rec in zip(meta, recs):
        if rec is None or "steps" not in rec:
            ctx.inconclusive_cases += 1; continue
        ctx.evaluations += 1
        exp = ev(t, BIG_EXPORTS)
        k0, v0 = core.outcome(rec["steps"][0])
        got = observed_map(rec["steps"][1])
        if k0 != "ok" or got != exp:
            ctx.violation({"what": "(import ...) over a library with 60 exports binds other names/values than the algebra yields", "kind": "import-big", "text": text[:400],
                           "missing": sorted(set(exp) - set(got or {}))[:8], "extra": sorted(set(got or {}) - set(exp))[:8], "import_outcome": rec["steps"][0] if k0 != "ok" else "ok",
                           "dedupe": "big|" + shape(t)[:20]}, {"text": text})
        else:
            ctx.count("big_library_imports"); ctx.nontriv("B|" + shape(t))
    ctx.legs.append(leg + ":big-library")
    for i in sample[:4]:
        ctx.sample({"term": to_text(terms[i], LIBN), "binds": ev(terms[i])})
    return ctx.finish(min_evals=1000, min_nontrivial=50)


def replay(path):
    data = json.load(open(path))
    r = data["replay"]
    interp = {"stdlib": False, "natives": False, "libs": [{"name": LIBN, "native": [[n, v] for n, v in EXPORTS.items()]}, {"name": LIBS, "src": SRC}, {"name": TWIN, "src": TWIN_SRC}, {"name": BIG, "src": BIG_SRC}, {"name": ODD, "src": ODD_SRC}, {"name": ODDW, "src": ODDW_SRC}]}
    if "texts" in r:
        steps = []
        for tx in r["texts"]:
            steps += [{"src": tx}, {"env_names": True}]
    elif "json" in r:
        steps = [{"import": r["json"], "fresh_env": True}]
    else:
        steps = [{"src": r["text"]}, {"env_names": True}]
    rec = core.run_jobs([{"id": "r", "interps": [interp], "steps": steps}], "dev", shards=1, timeout=60)[0]
    print(r.get("term") or r.get("text")); print(json.dumps(rec["steps"][-1])[:800]); print("expected:", data["violation"].get("expected"))
    return 0

"""C06 - the reader maps text to the data its tokens denote.
Monitor: (a) random datum trees rendered with random inter-token layout (nothing where the grammar allows, blanks, tabs,
CR/LF, comments), read back through Interpreter::eval as 'DATUM and compared with the tree they were rendered from; every
tree is rendered several ways and all renderings must read identically; (b) every string up to a bounded length over a
16-character alphabet, tokenized by Ruschm's Lexer and by an independent R7RS tokenizer (sxread)."""
import itertools, json
from fractions import Fraction
from . import core, sxread
from .sx import S, Sym, Char, Real, Vec, Dot, show, show_string, f32_bits, bits_f32
from .ref_scheme import Machine, match_value

PID = "C06"
LEVEL = "exploration"
ALPHA16 = list("()'.#\"\\;|a1+-/e ")
assert len(ALPHA16) == 16
DELIM = set(" \t\n\r|()\";")


# ------------------------------------------------------------------ (a) trees and layouts
PECULIAR = ["+inf", "-inf", "+nan", "-nan", "+infinity", "-Inf", "+NaN", "+info", "-nano", "+inf.", "+", "-", "...", "->", "+a", "-a", ".a", "..", "a.b", "<=?", "!x", "a1", "set!", "x->y", "+-", "-+1a" if False else "--", "a+b", "$%&*/:<=>?^_~"]


def rand_atom(rng):
    c = rng.random()
    if rng.random() < 0.03:
        # long tokens: identifiers and strings of hundreds of characters, integers with many leading zeros, decimals with many digits
        k = rng.randrange(5)
        if k == 0:
            return S("".join(rng.choice("abcxyz-!?*<>=/+.0123456789") for _ in range(rng.choice([80, 300]))).lstrip("+-.0123456789") or "a")
        if k == 1:
            return "".join(rng.choice(["a", " ", "\"", "\\", "\n", "(", ";", "|", "\t"]) for _ in range(rng.choice([200, 3000])))
        if k == 2:
            return ("int", rng.choice(["", "+", "-"]) + "0" * rng.choice([1, 12, 40]) + rng.choice(["", "7", "2147483647", "123"]) )
        if k == 3:
            return ("dec", rng.choice(["0." + "0" * 30 + "1", "1" + "0" * 21 + ".0", "123456789012345678901234567890e-20", "0.1000000000000000055511151231257827", "-1." + "9" * 40,
                                       "3." + "1415926535" * 4, "1e-" + "0" * 10 + "5", "1" + "0" * 38 + ".", "0." + "0" * 44 + "1"]))
        return ("bar", "".join(rng.choice(["a", " ", "(", ";", "\"", "#", "\n", "'"]) for _ in range(rng.choice([100, 1000]))))
    if c < 0.2:
        return S(rng.choice(PECULIAR + ["a", "b", "foo", "list->vector", "x1"]))
    if c < 0.28:
        if rng.random() < 0.4:
            return ("bar", "".join(rng.choice(["a", " ", "(", ";", "\"", "#", "\n", "\r\n", "\r", "\t", "'", "."]) for _ in range(rng.randint(0, 5))))
        return ("bar", rng.choice(["bar quoted", "a b", "(", "", "with;semi", "x\"y", "#t"]))       # |quoted| identifier
    if c < 0.42:
        return rng.choice([0, 1, -1, 42, 2147483647, -2147483648, 65536, rng.randint(-10 ** 6, 10 ** 6)])
    if c < 0.5:
        return ("rat", rng.choice(["1/2", "-1/2", "3/4", "6/4", "10/5", "-7/3", "0/5", "2147483647/2", "1/65536", "-2147483648/3", "-2147483648/2", "-2147483648/1",
                                   "2147483647/2147483646", "-2147483647/2", "1/2147483647", "+3/4", "-2147483648/2147483647", "2147483646/2147483647",
                                   "2/4294967294", "4/4294967292", "-6/4294967295", "2147483647/4294967294", "3/3000000000"]))
    if c < 0.62:
        return ("dec", rng.choice(["1.5", "-2.5", "0.1", "1e5", "1.5e-3", "-1e10", "1.", "0.", "+.5", "-.25", "12.25e+2", "3.4e38", "1e-45", "100.0", "1e0"]))
    if c < 0.7:
        return rng.random() < 0.5
    if c < 0.8:
        return Char(rng.choice(["a", "Z", "0", "(", ")", ";", "\"", "#", "\\", "|", "'", ".", "+", "\u03bb", "\u00e9", "\u00df", "\u0434", "\u4e2d", "\U0001F600", "\u00d7", "\u20ac"]))
    if rng.random() < 0.5:
        # random strings over characters that matter to a lexer, line ends of every kind included
        return "".join(rng.choice(["a", "b", " ", "\"", "\\", "\n", "\r", "\r\n", "\t", "\a", "|", ";", "(", ")", "#", "'", "n", "\\n", "\n#!", "\n;", "\n#|", "!", "\u00e9", "\u03bb", "\U0001F600"]) for _ in range(rng.randint(0, 6)))
    return rng.choice(["", "s", "two words", "q\"uote", "back\\slash", "new\nline", "tab\there", "bell\a", "bar|", "semi;colon", "(paren)", "\r", "\b"])


def rand_tree(rng, depth):
    c = rng.random()
    if depth <= 0 or c < 0.35:
        return rand_atom(rng)
    n = rng.randint(0, 4)
    items = [rand_tree(rng, depth - 1) for _ in range(n)]
    if c < 0.55:
        return Vec(items)
    if c < 0.67 and items:
        t = rand_tree(rng, depth - 1)
        return Dot(items, t)
    if c < 0.77:
        return [S("quote"), rand_tree(rng, depth - 1)]
    return items


def tokens_of(t, rng):
    """flatten a tree into token texts; quote forms are abbreviated at random"""
    if isinstance(t, tuple):
        if t[0] == "bar":
            return ["|" + t[1] + "|"]
        return [t[1]]
    if isinstance(t, bool):
        return ["#t" if t else "#f"]
    if isinstance(t, int):
        return [str(t) if rng.random() < 0.9 or t < 0 else "+" + str(t)]
    if isinstance(t, Sym):
        return [t.name]
    if isinstance(t, Char):
        return ["#\\" + t.ch]
    if isinstance(t, str):
        # line ends and tabs may stand in a string literal as they are, or as escapes
        return ['"' + "".join((c if (c in "\n\r\t" and rng.random() < 0.6) else show_string(c)[1:-1]) for c in t) + '"']
    if isinstance(t, Vec):
        return ["#("] + [x for y in t.items for x in tokens_of(y, rng)] + [")"]
    if isinstance(t, Dot):
        return ["("] + [x for y in t.items for x in tokens_of(y, rng)] + ["."] + tokens_of(t.tail, rng) + [")"]
    if isinstance(t, list):
        if len(t) == 2 and t[0] == S("quote") and rng.random() < 0.8:
            return ["'"] + tokens_of(t[1], rng)
        return ["("] + [x for y in t for x in tokens_of(y, rng)] + [")"]
    raise TypeError(t)


def model_of(t):
    """the datum a tree denotes, in sx form (for Machine.datum)"""
    if isinstance(t, tuple):
        if t[0] == "bar":
            return Sym(t[1])
        if t[0] == "int":
            return int(t[1] if t[1].strip("+-") else t[1] + "0")
        if t[0] == "rat":
            fr = Fraction(t[1])
            return int(fr) if fr.denominator == 1 else fr
        return ("real", t[1])
    if isinstance(t, Vec):
        return Vec([model_of(x) for x in t.items])
    if isinstance(t, Dot):
        tail = model_of(t.tail)
        items = [model_of(x) for x in t.items]
        if isinstance(tail, list):
            return items + tail
        if isinstance(tail, Dot):
            return Dot(items + tail.items, tail.tail)
        return Dot(items, tail)
    if isinstance(t, list):
        return [model_of(x) for x in t]
    return t


def model_from_sx(d):
    """sx datum (from the reference reader) -> the model form used by value_matches (reals keep their literal text's value)"""
    if isinstance(d, Real):
        return d
    if isinstance(d, list):
        return [model_from_sx(x) for x in d]
    if isinstance(d, Vec):
        return Vec([model_from_sx(x) for x in d.items])
    if isinstance(d, Dot):
        return Dot([model_from_sx(x) for x in d.items], model_from_sx(d.tail))
    return d


def needs_space(left, right):
    if left in ("(", "#(", "'"):
        return False
    if right[0] in "()\";" or right[0] == "|":
        # a delimiter character starts the next token; after a |quoted| identifier we still separate, see below
        return left.endswith("|") and right[0] == "|"
    if left == ")" or left.endswith("\"") and len(left) >= 2 and left[0] == "\"":
        return False
    return True


def layout(tokens, rng, style):
    out = []
    for i, tok in enumerate(tokens):
        if i > 0:
            need = needs_space(tokens[i - 1], tok)
            if style == "tight":
                sep = " " if need else ""
            else:
                seps = [" ", "  ", "\t", "\n", "\r\n", " \n ", " ;comment ( \" | \n", ";x\n", "\n\n"]
                sep = rng.choice(seps) if (need or rng.random() < 0.6) else ""
                if not need and sep.startswith(";") and tokens[i - 1] == "'":
                    sep = " "
            out.append(sep)
        out.append(tok)
    return "".join(out)


def value_matches(model, j, machine):
    """like match_value but decimal literals may be rounded directly or via binary64"""
    if isinstance(model, tuple) and model[0] == "real":
        if "r" not in j:
            return False
        from .gen_num import lit_real
        return j["r"] in lit_real(model[1])
    if isinstance(model, list):
        if "l" not in j or j.get("t") is not None or len(j["l"]) != len(model):
            return False
        return all(value_matches(m, x, machine) for m, x in zip(model, j["l"]))
    if isinstance(model, Dot):
        if "l" not in j or j.get("t") is None or len(j["l"]) != len(model.items):
            return False
        return all(value_matches(m, x, machine) for m, x in zip(model.items, j["l"])) and value_matches(model.tail, j["t"], machine)
    if isinstance(model, Vec):
        if "v" not in j or j.get("m") is not False or len(j["v"]) != len(model.items):
            return False
        return all(value_matches(m, x, machine) for m, x in zip(model.items, j["v"]))
    return match_value(machine.datum(model), j)


# ------------------------------------------------------------------ (b) token stream comparison
def tok_equal(rt, ot):
    k = rt.kind
    ok = ot.get("k")
    if k in ("(", ")", "#(", "'", "`", ",", ",@", "#u8("):
        return ok == k
    if k == "dot":
        return ok == "."
    if k == "id":
        return ok == "id" and ot.get("v") == rt.value
    if k == "str":
        return ok == "str" and ot.get("v") == rt.value
    if k == "char":
        return ok == "char" and ot.get("v") == rt.value
    if k == "bool":
        return ok == "bool" and ot.get("v") is rt.value
    if k == "int":
        return ok == "int" and ot.get("v") == rt.value
    if k == "rat":
        if ok == "rat" and rt.value is not None and ot["v"][1] != 0:
            return Fraction(ot["v"][0], ot["v"][1]) == rt.value
        if ok == "int" and rt.value is not None:
            return Fraction(ot["v"]) == rt.value
        return False
    if k == "real":
        try:
            return ok == "real" and float(ot.get("v")) == float(rt.value)
        except (TypeError, ValueError):
            return False
    return False


def compare_streams(text, ref, obs):
    """None if Ruschm's token stream is acceptable for `text`, else (what, index, hash_prefix_split).
    The essence of the property is that token BOUNDARIES fall only at delimiters: token i of both tokenizers must end at
    the same place.  Supported tokens must in addition carry the right datum; an unsupported or invalid token may be
    rejected, or be read as one token of the same extent."""
    otoks = obs.get("toks", []) if obs else []
    oerr = bool(obs and (obs.get("err") or obs.get("panic")))
    if obs is None or obs.get("panic") or obs.get("runaway"):
        return ("lexer panicked or ran away", 0, False)
    ref_eff = list(ref)
    for i, rt in enumerate(ref_eff):
        hash_split = rt.text[:2] in ("#t", "#f", "#\\") and rt.cls != "supported"
        if rt.kind == "blockcomment" or (rt.cls == "unsupported" and rt.kind in ("datumcomment", "hashsyntax")):
            # Ruschm has no such syntax: it has to stop with an error here
            if oerr and len(otoks) <= i:
                return None
            return ("valid but unsupported # syntax was neither rejected nor read as one token", i, hash_split)
        if i >= len(otoks):
            if not oerr:
                return ("a token is missing from the token stream", i, False)
            if rt.cls == "supported":
                return ("a supported token was rejected", i, False)
            return None          # an unsupported / invalid token was rejected
        ot = otoks[i]
        if rt.kind == "error":
            return ("an unterminated token was accepted", i, hash_split)
        end = ot.get("loc")
        if end is None or tuple(end) != tuple(rt.end):
            return ("a token boundary was placed where there is no delimiter (token split or merged)", i, hash_split)
        if rt.cls == "supported" and not tok_equal(rt, ot):
            return ("a supported token was read as a different datum", i, False)
    if len(otoks) > len(ref_eff):
        return ("extra tokens after the end of the reference stream", len(ref_eff), False)
    if oerr:
        last_bad = any(t.cls != "supported" for t in ref_eff)
        if not last_bad:
            return ("input made of supported tokens only was rejected", len(otoks), False)
    return None


def run(tier, seed):
    ctx = core.Ctx(PID, tier, seed, LEVEL)
    rng = ctx.rng
    maxlen = 4 if tier == "quick" else 5
    ntrees = 4000 if tier == "quick" else core.share(320000)
    ctx.rule = ("(a) %d random datum trees (depth <= 5; identifiers incl. peculiar and |quoted| ones, booleans, characters incl. delimiters, strings with every escape, integers at the "
                "i32 edges, ratios, decimals with exponents, dotted tails, vectors, nested quote abbreviations) each rendered 3 ways with random inter-token layout; (b) every string "
                "of length <= %d over the 16-character alphabet %r tokenized by both tokenizers (exhaustive). distinct_nontrivial = distinct reference token-kind sequences "
                "(with class) among the strings that agreed, plus distinct tree skeletons" % (ntrees, maxlen, "".join(ALPHA16)))
    ctx.assumptions = ["token classes: supported must yield exactly the datum; valid-but-unsupported (e.g. .5, #true, #\\space, 1E5, #|..|#) may be rejected or read right but not re-split; invalid must be rejected",
                       "decimal literals may round directly or via binary64"]
    machine = Machine()
    # ---------------- (b) exhaustive strings through the lexers
    strings = []
    for n in range(0, maxlen + 1):
        for t in itertools.product(ALPHA16, repeat=n):
            strings.append("".join(t))
    strings = core.mine(strings)
    ctx.observed["exhaustive_strings"] = len(strings)
    recs = core.run_driver("lex", strings, "release" if tier != "quick" else "dev", timeout=900, tag="c06lex")
    for text, obs in zip(strings, recs):
        ctx.evaluations += 1
        ref = sxread.tokenize(text)
        bad = compare_streams(text, ref, obs)
        if bad is None:
            ctx.nontriv("L|" + " ".join("%s:%s" % (t.kind, t.cls[0]) for t in ref))
            ctx.count("strings_agree")
        else:
            what, idx, hs = bad
            rt = [t for t in ref if t.kind != "blockcomment"]
            tok = rt[idx].text if idx < len(rt) else None
            ctx.violation({"what": what, "kind": "lex", "text": text, "token": tok, "hash_prefix_split": bool(hs),
                           "observed": [o.get("v", o.get("k")) for o in (obs or {}).get("toks", [])], "observed_error": ((obs or {}).get("err") or {}).get("kind"),
                           "dedupe": "%s|%s" % (what, classify_tok(tok))}, {"text": text})
    ctx.exhaustive = True
    ctx.legs.append("lexer-exhaustive")
    # ---------------- (c) the same strings through the reader: exactly one datum of supported tokens must read as that datum;
    # balanced text of supported tokens that is no datum (misplaced dots) must be rejected
    rjobs, rmeta = [], []
    cand = []
    for text in strings:
        toks = sxread.tokenize(text)
        if not toks or any(t.cls != "supported" for t in toks):
            continue
        depth, ok, tops = 0, True, 0
        for t in toks:
            if depth == 0 and t.kind != "'" :
                tops += 1
            if t.kind in ("(", "#("):
                depth += 1
            elif t.kind == ")":
                depth -= 1
                if depth < 0:
                    ok = False; break
        if not ok or depth != 0 or tops != 1 or toks[-1].kind == "'":
            continue
        try:
            d = sxread.parse_one(text); cand.append((text, ("datum", d)))
        except sxread.ReadError:
            cand.append((text, ("reject", None)))
    per = 400
    for k in range(0, len(cand), per):
        rjobs.append({"id": "c06r-%d" % k, "interps": [{"stdlib": True}], "steps": [{"src": "(quote %s\n)" % t} for t, e in cand[k:k + per]], "fuel": 1000}); rmeta.append(cand[k:k + per])
    rrecs = core.run_jobs(rjobs, "dev", timeout=900, tag="c06r")
    for m, rec in zip(rmeta, rrecs):
        if rec is None or "steps" not in rec:
            ctx.inconclusive_cases += len(m); continue
        for (text, (want, d)), st in zip(m, rec["steps"]):
            ctx.evaluations += 1
            kind, val = core.outcome(st)
            if want == "datum":
                if kind == "ok" and value_matches(model_from_sx(d), val, machine):
                    ctx.count("reader_strings_agree"); ctx.nontriv("R|" + " ".join(t.kind for t in sxread.tokenize(text)))
                else:
                    ctx.violation({"what": "a string that denotes one datum does not read as that datum", "kind": "read-exh", "text": text, "observed": val,
                                   "dedupe": "rx|%s" % (val.get("kind") if isinstance(val, dict) and kind == "err" else kind)}, {"text": text})
            else:
                if kind == "err":
                    ctx.count("reader_malformed_rejected")
                else:
                    ctx.violation({"what": "balanced text that is not a datum (misplaced dot) was read as a datum", "kind": "read-exh", "text": text, "observed": val,
                                   "dedupe": "rxa"}, {"text": text})
    ctx.legs.append("reader-exhaustive")
    # ---------------- (a) trees
    jobs, meta = [], []
    per = 60
    cases = []
    for _ in range(ntrees):
        t = rand_tree(rng, rng.randint(1, 5))
        cases.append(t)
    # WIDE data: hundreds of sibling vectors, dotted pairs, quotations and small lists inside one datum (the depth stays 2-3; what grows is the number of
    # compound data read one after another within one source text)
    for _ in range(6 if tier == "quick" else 40):
        w = rng.choice([200, 300, 700])
        mk = rng.choice([lambda i: Vec([i]), lambda i: Dot([i], i + 1), lambda i: [S("quote"), Vec([i, Vec([])])], lambda i: [i, Dot([i], S("t"))], lambda i: Vec([Dot([i], i)])])
        rows = [mk(i) for i in range(w)]
        cases.append(rng.choice([lambda r: r, lambda r: Vec(r), lambda r: Dot(r, 0), lambda r: [S("quote"), Vec(r)]])(rows))
    for k in range(0, len(cases), per):
        steps, m = [], []
        for t in cases[k:k + per]:
            toks = tokens_of(t, rng)
            for style in ("tight", "loose", "loose"):
                text = "'" + layout(toks, rng, style)
                steps.append({"src": text}); m.append((t, text))
        jobs.append({"id": "c06-%d" % k, "interps": [{"stdlib": True}], "steps": steps, "fuel": 1000}); meta.append(m)
    recs = core.run_jobs(jobs, "dev", timeout=900 if tier == "quick" else 3000, tag="c06")
    for m, rec in zip(meta, recs):
        if rec is None or "steps" not in rec:
            ctx.inconclusive_cases += len(m)
            if rec and "abort" in rec:
                ctx.violation({"what": "process died while reading", "kind": "abort"}, {"texts": [x[1] for x in m][:20]})
            continue
        for i, ((t, text), s) in enumerate(zip(m, rec["steps"])):
            ctx.evaluations += 1
            kind, val = core.outcome(s)
            model = model_of(t)
            ok = kind == "ok" and value_matches(model, val, machine)
            if ok:
                ctx.count("renderings_agree")
                if i % 3 == 0:
                    ctx.nontriv("T|" + tree_skel(t))
            else:
                ctx.violation({"what": "text does not read back as the datum its tokens denote", "kind": "read", "text": text, "observed": val if kind != "ok" else val,
                               "dedupe": "read|%s|%s" % (kind, (val or {}).get("kind") if isinstance(val, dict) else "")}, {"text": text})
    ctx.legs.append("reader-trees")
    # ---------------- (d) the same kind of trees read from a program FILE (the file reader hands the text to the same lexer line by line)
    import os, tempfile, shutil
    fdir = tempfile.mkdtemp(prefix="c06-", dir=core.TMP)
    fjobs, fmeta = [], []
    ftrees = [t for t in cases if "\r" not in tree_text(t)][: 600 if tier == "quick" else 6000]      # the file reader normalises CR LF: keep CR out of this leg
    for k in range(0, len(ftrees), 40):
        chunk = ftrees[k:k + 40]
        lines = ["(import (scheme base))"]
        for i, t in enumerate(chunk):
            lines.append("(define r%d '%s)" % (i, layout(tokens_of(t, rng), rng, rng.choice(["tight", "loose"])).replace("\r\n", "\n")))
        path = os.path.join(fdir, "f%d.scm" % k)
        open(path, "w", newline="").write(rng.choice(["\n", "\n\n", "\n  "]).join(lines) + rng.choice(["", "\n"]))
        fjobs.append({"id": "c06f-%d" % k, "interps": [{"stdlib": False, "natives": False}], "steps": [{"file": path}] + [{"src": "r%d" % i} for i in range(len(chunk))], "fuel": 2000})
        fmeta.append(chunk)
    frecs = core.run_jobs(fjobs, "dev", timeout=900, tag="c06f")
    for chunk, rec, job in zip(fmeta, frecs, fjobs):
        if rec is None or "steps" not in rec:
            ctx.inconclusive_cases += len(chunk); continue
        k0, v0 = core.outcome(rec["steps"][0])
        if k0 != "ok":
            ctx.violation({"what": "a program file of quoted data was not read", "kind": "read-file", "observed": v0, "dedupe": "file|%s" % (v0.get("kind") if isinstance(v0, dict) else k0)},
                          {"file_text": open(job["steps"][0]["file"]).read()[:3000]})
            continue
        for i, (t, st) in enumerate(zip(chunk, rec["steps"][1:])):
            ctx.evaluations += 1
            kind, val = core.outcome(st)
            if kind == "ok" and value_matches(model_of(t), val, machine):
                ctx.count("file_data_agree")
            else:
                ctx.violation({"what": "a datum read from a program file is not the datum its tokens denote", "kind": "read-file", "datum_index": i, "observed": val,
                               "dedupe": "filedatum|%s" % kind}, {"file_text": open(job["steps"][0]["file"]).read()[:3000], "index": i})
    shutil.rmtree(fdir, ignore_errors=True)
    ctx.legs.append("reader-files")
    ctx.sample({"tree_rendering": meta[0][0][1], "another": meta[0][1][1]}); ctx.sample({"strings": strings[5000:5010]})
    return ctx.finish(min_evals=1000, min_nontrivial=100)


def tree_text(t):
    """all character data of a tree (to look for characters a leg cannot carry)"""
    if isinstance(t, tuple):
        return t[1]
    if isinstance(t, str):
        return t
    if isinstance(t, Char):
        return t.ch
    if isinstance(t, (list,)):
        return "".join(tree_text(x) for x in t)
    if isinstance(t, Vec):
        return "".join(tree_text(x) for x in t.items)
    if isinstance(t, Dot):
        return "".join(tree_text(x) for x in t.items) + tree_text(t.tail)
    return ""


def classify_tok(t):
    if t is None:
        return "end"
    if t[:2] in ("#t", "#f"):
        return "#bool+"
    if t[:2] == "#\\":
        return "#char+"
    if t[0] == "#":
        return "#other"
    if t[0] in "0123456789+-." and any(c.isdigit() for c in t):
        return "numberlike"
    return "other"


def tree_skel(t):
    if isinstance(t, tuple):
        return t[0]
    if isinstance(t, Vec):
        return "#(" + " ".join(tree_skel(x) for x in t.items) + ")"
    if isinstance(t, Dot):
        return "(" + " ".join(tree_skel(x) for x in t.items) + " . " + tree_skel(t.tail) + ")"
    if isinstance(t, list):
        return "(" + " ".join(tree_skel(x) for x in t) + ")"
    return type(t).__name__


def replay(path):
    data = json.load(open(path))
    text = data["replay"]["text"]
    obs = core.run_driver("lex", [text], "dev", shards=1, timeout=60)[0]
    print(repr(text)); print("reference:", sxread.tokenize(text)); print("ruschm:", json.dumps(obs)[:800])
    return 0

"""C10 - numeric comparison is the mathematical order.
Monitor: all predicates, max/min and eqv? over all pairs and ordered triples of the operand grid on the real interpreter,
judged (a) against the Fraction / binary32 model and (b) oracle-free: the observed relation must satisfy the order axioms."""
import itertools, json
from fractions import Fraction
from . import core, gen_num, ref_num
from .sx import Real
from .ref_num import Unjudgeable
from .c09 import klass, operand_defs, check_operands

PID = "C10"
LEVEL = "exploration"
PREDS = ["=", "<", ">", "<=", ">="]
REL = {"=": lambda c: c == 0, "<": lambda c: c < 0, ">": lambda c: c > 0, "<=": lambda c: c <= 0, ">=": lambda c: c >= 0}


def model_pred(p, args):
    """conjunction over adjacent pairs; None = unordered (NaN) -> #f"""
    for a, b in zip(args, args[1:]):
        c = ref_num.cmp_model(a, b)
        if c is None or not REL[p](c):
            return False
    return True


def model_extreme(which, args):
    if all(ref_num.is_exact(a) for a in args):
        return max(args) if which == "max" else min(args)
    fs = []
    for a in args:
        f = ref_num.to_f32(a) if ref_num.is_exact(a) else a.value
        if f is None:
            raise Unjudgeable()
        if ref_num.is_exact(a) and not ref_num.representable(a):
            raise Unjudgeable()
        fs.append(f)
    return max(fs) if which == "max" else min(fs)


def model_eqv(a, b):
    if ref_num.is_exact(a) != ref_num.is_exact(b):
        return False
    if ref_num.is_exact(a):
        return a == b
    return a.value == b.value


def judge_vector(ctx, args, shown, step, with_eqv, leg):
    kind, val = core.outcome(step)
    key = ",".join(klass(a) for a in args)
    if kind in ("missing", "abort", "fuel"):
        ctx.inconclusive_cases += 1; return
    if kind != "ok" or "v" not in val:
        ctx.violation({"what": "comparison raised an error or panicked", "kind": "cmp", "expr": shown, "observed": val, "leg": leg,
                       "dedupe": "err|" + key}, {"expr": shown, "leg": leg})
        return
    items = val["v"]
    names = PREDS + ["max", "min"] + (["eqv?"] if with_eqv else [])
    extra = items[len(names)] if len(items) > len(names) else None
    if extra is not None and "l" in extra and not any(isinstance(a, Real) and a.value != a.value for a in args):
        flags = [x.get("b") for x in extra["l"]]
        half = len(flags) // 2
        ctx.count("checked_extreme_is_an_argument")
        if not any(flags[:half]) or not any(flags[half:]):
            ctx.violation({"what": "the value of max / min is not = to any of its arguments", "kind": "cmp", "op": "max" if not any(flags[:half]) else "min", "expr": shown,
                           "observed": flags, "leg": leg, "dedupe": "extreme-arg|" + key}, {"expr": shown, "leg": leg})
    for name, o in zip(names, items):
        ctx.evaluations += 1
        try:
            if name in PREDS:
                exp = model_pred(name, args)
                got = o.get("b")
                ok = got is exp
                expd = exp
            elif name in ("max", "min"):
                t = model_extreme(name, args)
                got = ref_num.from_json(o)
                if isinstance(t, Fraction):
                    ok = ref_num.is_exact(got) and got == t
                else:
                    ok = isinstance(got, Real) and (got.value == t)
                expd = str(t)
            else:
                exp = model_eqv(args[0], args[1])
                got = o.get("b"); ok = got is exp; expd = exp
        except Unjudgeable:
            ctx.count("unjudgeable_conversion"); continue
        ctx.count("checked_" + ("pred" if name in PREDS else name))
        ctx.nontriv("%s:%s" % (name, key))
        if not ok:
            ctx.violation({"what": "%s disagrees with the mathematical order" % name, "kind": "cmp", "op": name, "expr": shown, "observed": o,
                           "expected": expd, "leg": leg, "dedupe": "%s|%s" % (name, key)}, {"expr": shown, "leg": leg, "index": names.index(name)})


def axioms(ctx, g, lt, eq):
    """order axioms on the observed relation itself, inside the exact and inside the inexact operands"""
    n = len(g)
    for label, idx in (("exact", [i for i in range(n) if ref_num.is_exact(g[i][1])]), ("inexact", [i for i in range(n) if not ref_num.is_exact(g[i][1])])):
        for i in idx:
            for j in idx:
                if (i, j) not in lt:
                    continue
                tri = int(lt[(i, j)]) + int(eq[(i, j)]) + int(lt[(j, i)])
                ctx.count("axiom_trichotomy_checked")
                if tri != 1:
                    ctx.violation({"what": "trichotomy violated on the observed relation", "kind": "axiom", "a": g[i][0], "b": g[j][0],
                                   "lt": lt[(i, j)], "eq": eq[(i, j)], "gt": lt[(j, i)], "dedupe": "tri|%s" % label}, {"a": g[i][0], "b": g[j][0]})
                if eq[(i, j)] != eq[(j, i)]:
                    ctx.violation({"what": "= is not symmetric", "kind": "axiom", "a": g[i][0], "b": g[j][0], "dedupe": "sym|%s" % label}, {"a": g[i][0], "b": g[j][0]})
        for i, j, k in itertools.product(idx, repeat=3):
            if (i, j) in lt and (j, k) in lt and (i, k) in lt:
                ctx.count("axiom_transitivity_checked")
                if lt[(i, j)] and lt[(j, k)] and not lt[(i, k)]:
                    ctx.violation({"what": "< is not transitive on the observed relation", "kind": "axiom", "a": g[i][0], "b": g[j][0], "c": g[k][0],
                                   "dedupe": "trans|%s" % label}, {"a": g[i][0], "b": g[j][0], "c": g[k][0]})
                if eq[(i, j)] and eq[(j, k)] and not eq[(i, k)]:
                    ctx.violation({"what": "= is not transitive on the observed relation", "kind": "axiom", "a": g[i][0], "b": g[j][0], "c": g[k][0],
                                   "dedupe": "transeq|%s" % label}, {"a": g[i][0], "b": g[j][0], "c": g[k][0]})


def run_leg(ctx, leg, g, tuples):
    defs = operand_defs(g)
    read = "(vector %s)" % " ".join("n%d" % i for i in range(len(g)))
    per = 3000
    jobs, meta = [], []
    for k in range(0, len(tuples), per):
        chunk = tuples[k:k + per]
        steps = [{"src": d} for d in defs] + [{"src": read}]
        for t in chunk:
            names = " ".join("n%d" % i for i in t)
            ex = ["(%s %s)" % (p, names) for p in PREDS + ["max", "min"]]
            if len(t) == 2:
                ex.append("(eqv? %s)" % names)
            # model-free: the value of max / min is = to at least one argument (the comparisons and max/min convert exact operands the same way)
            ex.append("((lambda (mx mn) (list %s %s)) (max %s) (min %s))" % (" ".join("(= mx n%d)" % i for i in t), " ".join("(= mn n%d)" % i for i in t), names, names))
            steps.append({"src": "(vector %s)" % " ".join(ex)})
        jobs.append({"id": "c10-%s-%d" % (leg, k), "interps": [{"stdlib": True}], "steps": steps, "fuel": 10000})
        if len(jobs) % 4 == 2:
            from . import diff as _diff
            _diff.age(jobs[-1], __import__("random").Random(len(jobs)), 200)      # every fourth job on an interpreter that has seen 200 failing forms
        meta.append(chunk)
    recs = core.run_jobs(jobs, leg, timeout=900, tag="c10")
    nd = len(defs)
    lt, eq = {}, {}
    for job, chunk, rec in zip(jobs, meta, recs):
        if rec is None or "steps" not in rec:
            ctx.inconclusive_cases += len(chunk)
            if rec and "abort" in rec:
                ctx.violation({"what": "driver aborted during comparison", "kind": "abort", "abort": rec["abort"]}, {"job": job})
            continue
        st = rec["steps"]
        if not check_operands(ctx, g, st[nd]):
            continue
        for t, s in zip(chunk, st[nd + 1:]):
            args = [g[i][1] for i in t]
            shown = "(OP %s)" % " ".join(g[i][0] for i in t)
            judge_vector(ctx, args, shown, s, len(t) == 2, leg)
            if len(t) == 2 and "ok" in s and "v" in s["ok"]:
                v = s["ok"]["v"]
                eq[(t[0], t[1])] = v[0].get("b"); lt[(t[0], t[1])] = v[1].get("b")
            if len(ctx.samples) < 5 and ctx.evaluations % 50021 < 8:
                ctx.sample({"operands": [g[i][0] for i in t], "observed[= < > <= >= max min eqv?]": s.get("ok", s), "leg": leg})
    axioms(ctx, g, lt, eq)


def run(tier, seed):
    ctx = core.Ctx(PID, tier, seed, LEVEL)
    g = gen_num.grid()
    n = len(g)
    ctx.rule = ("= < > <= >= max min on every ordered pair (plus eqv?) and on ordered triples of the %d-operand grid (all triples in thorough, a seeded "
                "sample in quick); operands include values produced by arithmetic. distinct_nontrivial = distinct (operation, operand "
                "representation classes) combinations judged against the model; the order axioms are checked on the observed pair relation" % n)
    ctx.assumptions = ["mixed exact/inexact comparison converts the exact operand to binary32 (ratios with components >= 2^24 are not judged)"]
    pairs = list(itertools.product(range(n), repeat=2)) if core.PART_I == 0 else []
    if tier == "thorough":
        triples = core.mine(itertools.product(range(n), repeat=3))
        ctx.exhaustive = True
    else:
        triples = [tuple(ctx.rng.randrange(n) for _ in range(3)) for _ in range(40000)]
    # long argument lists (4-12 operands): "an n-ary comparison is the conjunction of its adjacent pairs"; half of them monotone chains of exact
    # operands (so that the predicates can hold), some of those with one adjacent pair swapped or repeated
    exact_idx = [i for i in range(n) if ref_num.is_exact(g[i][1])]
    longs = []
    for _ in range(3000 if tier == "quick" else core.share(60000)):
        k = ctx.rng.choice([4, 5, 6, 8, 12])
        if ctx.rng.random() < 0.5:
            t = sorted((ctx.rng.choice(exact_idx) for _ in range(k)), key=lambda i: g[i][1], reverse=ctx.rng.random() < 0.5)
            c = ctx.rng.random()
            if c < 0.3:
                j = ctx.rng.randrange(k - 1); t[j], t[j + 1] = t[j + 1], t[j]
            elif c < 0.5:
                j = ctx.rng.randrange(k - 1); t[j + 1] = t[j]
        else:
            t = [ctx.rng.randrange(n) for _ in range(k)]
        longs.append(tuple(t))
    # operands that binary32 cannot tell apart (an exact number, another exact number, the real both are converted to): every ordered triple
    # and some longer tuples over each such class - comparisons among them are not transitive, an n-ary one is still the conjunction of its pairs
    classes = {}
    for i in range(n):
        v = g[i][1]
        try:
            f = ref_num.to_f32(v) if ref_num.is_exact(v) else v.value
        except Exception:
            f = None
        if f is not None and f == f and (not ref_num.is_exact(v) or ref_num.representable(v)):
            classes.setdefault(f, []).append(i)
    coll = []
    for f, idx in classes.items():
        exact = [i for i in idx if ref_num.is_exact(g[i][1])]
        if len({g[i][1] for i in exact}) >= 2 and len(idx) <= 8:
            coll += list(itertools.product(idx, repeat=3))
            coll += [tuple(ctx.rng.choice(idx) for _ in range(ctx.rng.choice([4, 5]))) for _ in range(40)]
    # ... and the same pairs of indistinguishable exact operands AFTER an unrelated inexact operand (the first pair of the chain is a mixed comparison, the second
    # pair an exact one that must not inherit anything from it)
    inexact_idx = [i for i in range(n) if not ref_num.is_exact(g[i][1]) and g[i][1].value == g[i][1].value]
    for f, idx in classes.items():
        exact = [i for i in idx if ref_num.is_exact(g[i][1])]
        if len({g[i][1] for i in exact}) >= 2 and len(idx) <= 8:
            for x in ctx.rng.sample(inexact_idx, min(6, len(inexact_idx))):
                coll += [(x, a, b) for a in exact for b in exact] + [(a, x, b) for a in exact[:2] for b in exact[:2]]
    ctx.observed["collision_tuples"] = len(coll)
    triples = list(triples) + longs + (coll if core.PART_I == 0 else [])
    ctx.observed["grid_size"] = n
    for leg in ["dev", "release"]:
        ts = pairs + (triples if (leg == "dev" or tier == "thorough") else triples[::5])
        run_leg(ctx, leg, g, ts)
        ctx.legs.append(leg)
    if core.PART_I == 0:
        short_tuples(ctx, g)
    return ctx.finish(min_evals=10000, min_nontrivial=50)


def short_tuples(ctx, g):
    """operand tuples of length 0 and 1: there is no adjacent pair, so the conjunction is true - called directly and through apply"""
    defs = operand_defs(g)
    steps = [{"src": d} for d in defs]
    steps.append({"src": "(vector (=) (<) (>) (<=) (>=) (apply = '()) (apply < '()) (apply >= (list)))"})
    for i in range(len(g)):
        steps.append({"src": "(vector (= n%d) (< n%d) (> n%d) (<= n%d) (>= n%d) (apply < (list n%d)) (apply = n%d '()))" % ((i,) * 7)})
    rec = core.run_jobs([{"id": "c10-short", "interps": [{"stdlib": True}], "steps": steps, "fuel": 10000}], "dev", timeout=300, tag="c10s")[0]
    if rec is None or "steps" not in rec:
        ctx.inconclusive_cases += 1; return
    for k, st in enumerate(rec["steps"][len(defs):]):
        ctx.evaluations += 1
        kind, v = core.outcome(st)
        ok = kind == "ok" and isinstance(v, dict) and all(x.get("b") is True for x in v.get("v", [{}]))
        shown = "no operand" if k == 0 else "the single operand %s" % g[k - 1][0]
        if not ok:
            ctx.violation({"what": "a comparison over fewer than two operands is not true (the conjunction over no adjacent pair)", "kind": "cmp", "operands": shown,
                           "observed": v if kind != "ok" else v.get("v"), "dedupe": "short|%s" % (k == 0)}, {"operands": shown})
        else:
            ctx.count("checked_short_tuples")
    ctx.legs.append("short-tuples")


def replay(path):
    data = json.load(open(path))
    print(json.dumps(data, indent=1)[:2000])
    return 0

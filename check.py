#!/usr/bin/env python3
"""Entry point of every registered check:  ./check.py C07 --tier quick|thorough [--replay FILE]
Exit 0 = held on everything explored, 1 = violation (line `VIOLATION property=<id> replay=<path>`),
2 = inconclusive (never a VIOLATION line)."""
import argparse, importlib, json, os, sys, time, traceback

sys.path.insert(0, os.path.dirname(os.path.abspath(__file__)))
from vlib import core


def main():
    ap = argparse.ArgumentParser()
    ap.add_argument("prop", nargs="?")
    ap.add_argument("--tier", default=os.environ.get("VERIF_TIER", "quick"), choices=["quick", "thorough"])
    ap.add_argument("--replay")
    ap.add_argument("--setup", action="store_true")
    ap.add_argument("--seed", type=int, default=None)
    a = ap.parse_args()
    if a.setup:
        core.build_driver("dev"); core.build_driver("release"); core.build_cli()
        print("setup ok")
        return 0
    pid = a.prop.upper()
    seed = a.seed if a.seed is not None else int(os.environ.get("VERIF_SEED", "1") or 1)
    try:
        mod = importlib.import_module("vlib.%s" % pid.lower())
    except ImportError as e:
        print("no check for %s: %s" % (pid, e)); return 2
    if a.replay:
        return mod.replay(a.replay)
    nparts = int(os.environ.get("VERIF_PARTS", "8") or 8)
    if a.tier == "thorough" and core.PART_N == 1 and nparts > 1 and getattr(mod, "PARALLEL", True):
        return run_parts(mod, pid, a.tier, seed, nparts)
    try:
        return mod.run(a.tier, seed)
    except core.Inconclusive as e:
        return core.write_inconclusive(pid, a.tier, seed, getattr(mod, "LEVEL", "exploration"), str(e))
    except Exception:
        traceback.print_exc()
        return core.write_inconclusive(pid, a.tier, seed, getattr(mod, "LEVEL", "exploration"),
                                       "harness error: " + traceback.format_exc()[-400:])


def run_parts(mod, pid, tier, seed, nparts):
    """thorough tier: run the check as `nparts` independent parts in parallel processes and merge what they observed"""
    import subprocess
    t0 = time.time()
    try:
        for prof in getattr(mod, "PROFILES", ["dev", "release"]):
            core.build_driver(prof)
    except core.Inconclusive as e:
        return core.write_inconclusive(pid, tier, seed, getattr(mod, "LEVEL", "exploration"), str(e))
    procs = []
    for i in range(nparts):
        try:
            os.remove(core.part_file(pid, tier, i))
        except OSError:
            pass
        env = dict(os.environ, VERIF_PART="%d/%d" % (i, nparts), VERIF_SEED=str(seed))
        procs.append(subprocess.Popen([sys.executable, os.path.abspath(__file__), pid, "--tier", tier, "--seed", str(seed)], env=env, stdout=subprocess.PIPE, stderr=subprocess.STDOUT, text=True))
    outs = [p.communicate()[0] for p in procs]
    ctx = core.Ctx(pid, tier, seed, getattr(mod, "LEVEL", "exploration"))
    ctx.t0 = t0
    missing = []
    mins = (1, 2)
    exhaustive = True
    for i, (p, out) in enumerate(zip(procs, outs)):
        fp = core.part_file(pid, tier, i)
        if p.returncode != 0 or not os.path.exists(fp):
            missing.append((i, p.returncode, out[-600:]))
            continue
        part = json.load(open(fp))
        ctx.merge(part)
        exhaustive = exhaustive and part.get("exhaustive", False)
        mins = (part["min_evals"], part["min_nontrivial"])
        os.remove(fp)
    if missing:
        for i, rc, out in missing:
            print("part %d ended with status %s:\n%s" % (i, rc, out))
        return core.write_inconclusive(pid, tier, seed, ctx.level, "%d of %d parts of the thorough run did not deliver a result" % (len(missing), nparts))
    ctx.exhaustive = exhaustive
    ctx.observed["parts"] = nparts
    ctx.samples = ctx.samples[:8]
    rc = ctx.finish(*mins)
    post = getattr(mod, "post", None)
    if post is not None and rc == core.EXIT_HELD:
        rc = post(ctx) or rc
    return rc


if __name__ == "__main__":
    sys.exit(main())

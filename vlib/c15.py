"""C15 - reported error locations point into the form that failed.
Monitor: fault programs (the C08 contexts) rendered with random multi-line layout, indentation, comments and preceding forms;
the renderer's text is re-tokenized by the independent tokenizer, which gives the extent of every top-level form and of the
offending token.  Observed: SchemeError.location from Interpreter::eval of the whole text.  Oracle: a location is present
and lies in the failing form (at the offending token for unbound reads and non-procedure operators); syntax errors that
carry a location point at or before the offending token."""
import json, os
from . import core, sxread, c08, gen_core
from .c06 import layout
from .sx import S, show

PID = "C15"
LEVEL = "exploration"
FAULTS = ["non-procedure", "unbound-read", "arity", "wrong-type", "index", "literal-mutation", "div0", "unbound-set"]


class LG(c08.FG):
    """fault generator with uniquely named offending tokens"""

    def __init__(self, rng):
        c08.FG.__init__(self, rng)
        self.offender = None
        self.predefs = []

    def fault_call(self, fault):
        r = self.rng
        if fault == "non-procedure":
            name = "np%d" % r.randint(1000, 9999)
            self.offender = name
            self.predefs.append("(define %s %s)" % (name, r.choice(["5", "'a", "\"s\"", "(vector 1)", "#t", "'(1 2)"])))
            return S(name), [self.tick(r.randint(0, 9)) for _ in range(r.randint(0, 2))]
        if fault == "unbound-read":
            name = "nosuch%d" % r.randint(1000, 9999)
            self.offender = name
            return None, S(name)
        return c08.FG.fault_call(self, fault)


def form_spans(text):
    """[(start (line,col), end cursor (line,col), [tokens])] of the top-level forms"""
    toks = sxread.tokenize(text)
    spans, depth, cur = [], 0, []
    pending_quote = False
    for t in toks:
        cur.append(t)
        if t.kind in ("(", "#("):
            depth += 1
        elif t.kind == ")":
            depth -= 1
        if depth == 0 and t.kind != "'":
            spans.append((cur[0].start, cur[-1].end, cur)); cur = []
    return spans


def within(loc, start, end):
    """start <= loc <= end in (line, col) order; end is the cursor after the last character"""
    return tuple(start) <= tuple(loc) <= tuple(end)


def lib_token_ends():
    """cursor positions after every token of the bundled sources (where a location leaked from them would point)"""
    out = set()
    for p in ("src/interpreter/library/include/scheme/base.sld", "src/parser/grammar.sld", "src/interpreter/library/include/scheme/write.sld"):
        try:
            for t in sxread.tokenize(open(os.path.join(core.REPO, p)).read()):
                out.add(tuple(t.end))
        except OSError:
            pass
    return out


def run(tier, seed):
    ctx = core.Ctx(PID, tier, seed, LEVEL)
    rng = ctx.rng
    per_cell = 25 if tier == "quick" else core.share(1600)
    ctx.rule = ("fault programs: %d fault kinds x 7 calling contexts (top-level macro use, tail call written inside the failing form, direct, tail at trampoline iteration 1/2/k, apply, inside map/for-each/fold, inside a derived form in a procedure), "
                "%d per cell, rendered with random multi-line layout, indentation, comments and 0-30 preceding forms; plus syntax-error inputs with a known offending token. "
                "distinct_nontrivial = distinct (fault, context, line of the failing form, located at token / in form) observations that satisfied the oracle" % (len(FAULTS), per_cell))
    ctx.assumptions = ["locations are compared in cursor coordinates: both 'column of a character' and 'cursor after the token' fall inside [start, end+1] of a span",
                       "a fault whose offending token sits in a procedure defined by an earlier form may be reported at that token or anywhere in the failing form",
                       "an unbound variable in an assignment may be reported anywhere in the failing form"]
    libends = lib_token_ends()
    cases = []
    for f in FAULTS:
        for c in c08.CONTEXTS + ["toplevel-derived", "inline-tail"]:
            n = tries = 0
            while n < per_cell and tries < per_cell * 4:
                tries += 1
                g = LG(rng)
                if c == "toplevel-derived":
                    # the failing top-level form is itself a macro use
                    defs, inner = g.in_context("direct", f)
                    fexpr = rng.choice([
                        lambda e: [S("let"), [[S("y"), 1]], e], lambda e: [S("let*"), [[S("y"), 1], [S("z"), 2]], g.tick(0), e], lambda e: [S("begin"), g.tick(0), e],
                        lambda e: [S("cond"), [False, 0], [S("else"), e]], lambda e: [S("when"), True, g.tick(0), e], lambda e: [S("case"), 1, [[1], e], [S("else"), 0]],
                        lambda e: [S("and"), True, e], lambda e: [S("or"), False, e], lambda e: [S("unless"), False, e, 1],
                        lambda e: [S("let"), [[S("y"), e]], S("y")], lambda e: [S("cond"), [e, 1]],
                    ])(inner)
                elif c == "inline-tail":
                    # the faulting call is a tail call (met by the trampoline) written inside the failing form itself
                    op, args = g.fault_call(f)
                    call = args if op is None else [op] + args
                    defs = []
                    fexpr = g.embed(rng.choice([[[S("lambda"), [], g.tick(0), call]], [[S("lambda"), [S("a")], [S("if"), S("a"), call, 0]], 1],
                                                [[S("lambda"), [S("a")], [[S("lambda"), [], call]]], 2]]), rng.randint(0, 2))
                else:
                    defs, fexpr = g.in_context(c, f)
                # preceding material: prelude + 0-30 valid forms
                pre = list(c08.PRELUDE) + g.predefs
                k = rng.choice([0, 0, 1, 3, 8, 30])
                gg = gen_core.G(rng, ticks=False, max_depth=3)
                while len(pre) < len(c08.PRELUDE) + k:
                    pre += [show(gen_core.render(x, "plain")) for x in gg.program()]
                pre = pre[:len(c08.PRELUDE) + len(g.predefs) + k]
                try:
                    from . import diff
                    from .ref_scheme import Strategy, OutOfModel
                    forms = [sxread.parse_one(t) for t in pre] + defs + [fexpr]
                    exp = diff.model_run(forms, Strategy())
                except Exception:
                    continue
                errs = [i for i, e in enumerate(exp) if e[0] == "err"]
                if errs != [len(forms) - 1]:
                    continue
                # render: every form with its own random layout, forms separated by blank lines / comments
                parts = []
                for fm in forms:
                    toks = [t.text for t in sxread.tokenize(show(fm))]
                    parts.append(layout(toks, rng, rng.choice(["tight", "loose", "loose"])))
                sep = lambda: rng.choice(["\n", "\n\n", " ", "\n; a comment (with parens\n", "\n   ", "\r\n"])
                # line and column numbers of every magnitude: hundreds of lines, more lines than 16 bits count, columns beyond 255 and beyond 65535
                head = rng.choice(["", "\n", "; header\n", "   "] * 4 + ["\n" * 300, "; c\n" * 1000, "\n" * 70000])
                indent = rng.choice([""] * 8 + [" " * 300, " " * 70000])
                # character literals (also the one whose character is the line feed itself) before the failing form, on earlier lines and on its own line
                extra = 0
                if rng.random() < 0.15:
                    head += "(define nlc #\\\n)\n(define chs (list #\\a #\\( #\\; #\\space))\n".replace("#\\space", "#\\s"); extra += 2
                if rng.random() < 0.15:
                    indent += "(list #\\a #\\b #\\c #\\d #\\e #\\f #\\g #\\h #\\i #\\j #\\k #\\l #\\m #\\n) "; extra += 1
                if rng.random() < 0.2:
                    # string literals with escape sequences (two source characters each) before the failing form on its own line
                    indent += '(define strs (list "a\\nb" "q\\"uote" "tab\\there" "back\\\\slash" "\\\\\\"")) '; extra += 1
                text = head + "".join(p + sep() for p in parts[:-1]) + indent + parts[-1] + rng.choice(["", "\n", "  ; trailing\n", "\n\n(define after 1)\n"])
                cases.append({"fault": f, "context": c, "text": text, "nforms": len(forms) + extra, "offender": g.offender, "ndefs": len(defs)}); n += 1
    # identifiers that come from a macro template (a user macro calling an undefined helper; unless/case/or on an interpreter that did not import
    # not/memv): the offending identifier is not in the failing form's text, so the location has to fall back into the failing form
    for k in range(per_cell * 2):
        name = "helper%d" % rng.randint(1000, 9999)
        macro = rng.choice(["(define-syntax call-it (syntax-rules () ((call-it a) (%s a))))" % name,
                            "(define-syntax get-it\n  (syntax-rules ()\n    ((get-it a b ...)\n     (list a\n       %s b ...))))" % name,
                            "(define-syntax twice-it (syntax-rules () ((twice-it a) (begin a (%s) a))))" % name,
                            # the helper is mentioned in a sub-template that is repeated, and first reached in a later repetition
                            "(define-syntax each-it\n  (syntax-rules ()\n    ((each-it (ok val) ...)\n     (list (if ok val (%s 'val)) ...))))" % name,
                            "(define-syntax all-it (syntax-rules () ((all-it a ...) (begin (if a 'fine (%s)) ...))))" % name,
                            "(define-syntax third-it (syntax-rules () ((third-it (a b) ...) (vector (and a (b %s)) ...))))" % name,
                            # the macro use is a definition whose value expression is built from the template
                            "(define-syntax def-it (syntax-rules () ((def-it n v) (define n (%s v)))))" % name,
                            "(define-syntax def2-it\n  (syntax-rules ()\n    ((def2-it n v ...)\n     (define n\n       (list v ... %s)))))" % name])
        use = {"call-it": "(call-it 1)", "get-it": "(get-it 1 2 3)", "twice-it": "(twice-it (list 1))", "each-it": "(each-it (#t 1) (#t 2) (#f 3))", "all-it": "(all-it #t 1 #f)",
               "third-it": "(third-it (#f car) (1 list) (2 list))", "def-it": "(def-it zz 7)", "def2-it": "(def2-it zz 1 2)"}[macro.split()[1]]
        if macro.split()[1] in ("def-it", "def2-it"):
            # a definition stays a top-level form
            pre = ["(define filler%d %d)" % (i, i) for i in range(rng.choice([0, 2, 9, 40]))]
            pos = rng.randrange(len(pre) + 1)
            forms_t = pre[:pos] + [macro] + pre[pos:] + [use]
            text = "\n".join(forms_t) + rng.choice(["", "\n"])
            cases.append({"fault": "template-identifier", "context": "user-macro-definition", "text": text, "nforms": len(forms_t), "offender": None, "ndefs": 0})
            continue
        use = rng.choice(["%s", "(list 1\n  %s)", "(car (list %s))", "(if #t\n    %s\n    0)"]) % use
        pre = ["(define filler%d %d)" % (i, i) for i in range(rng.choice([0, 2, 9, 40]))]
        pos = rng.randrange(len(pre) + 1)
        forms_t = pre[:pos] + [macro] + pre[pos:] + [use]
        text = "\n".join(forms_t) + rng.choice(["", "\n"])
        cases.append({"fault": "template-identifier", "context": "user-macro", "text": text, "nforms": len(forms_t), "offender": None, "ndefs": 0})
    # builtin faults (no identifier to point at) raised by an expression that a user macro's template builds, as the value of a definition,
    # as a repeated sub-template, or as a plain expression: the location must still fall into the failing form
    for k in range(per_cell * 2):
        fault_e, arg = rng.choice([("(car v)", "7"), ("(vector-ref v 10)", "(vector 1 2)"), ("(/ 5 v)", "0"), ("(+ v 'a)", "1"), ("(vector-set! v 0 1)", "'#(1 2)"),
                                   ("(v 1)", "5"), ("(cdr (cdr v))", "'(1)"), ("(f2 v)", "1")])
        macro, use = rng.choice([
            ("(define-syntax def-bad (syntax-rules () ((def-bad n v) (define n %s))))" % fault_e, "(def-bad zz %s)" % arg),
            ("(define-syntax def-bad\n  (syntax-rules ()\n    ((def-bad n v)\n     (define n\n        (list 1 %s)))))" % fault_e, "(def-bad zz %s)" % arg),
            ("(define-syntax each-bad (syntax-rules () ((each-bad (ok v) ...) (list (if ok 'fine %s) ...))))" % fault_e, "(each-bad (#t 1) (#t 2) (#f %s))" % arg),
            ("(define-syntax run-bad (syntax-rules () ((run-bad v) (begin 1 %s))))" % fault_e, "(run-bad %s)" % arg),
            ("(define-syntax set-bad (syntax-rules () ((set-bad n v) (begin (define n 0) (set! n %s)))))" % fault_e, "(set-bad zz %s)" % arg),
            # the operator of the failing call is a compound expression written in a (repeated) sub-template; the fault comes in a later repetition
            ("(define-syntax each-call\n  (syntax-rules ()\n    ((each-call n ...)\n     (list ((pick n) '(a b)) ...))))", "(each-call 1 1 2)"),
            ("(define-syntax each-call2 (syntax-rules () ((each-call2 (n m) ...) (vector ((if (= n m) car (pick 2)) '(a b)) ...))))", "(each-call2 (1 1) (2 2) (1 2))"),
            ("(define-syntax one-call (syntax-rules () ((one-call n) (list 0 ((pick n) '(a b))))))", "(one-call 2)")])
        pre = ["(define (f2 a b) (+ a b))", "(define (pick n) (if (= n 1) car 5))"] + ["(define filler%d %d)" % (i, i) for i in range(rng.choice([0, 2, 9, 40]))]
        pos = rng.randrange(1, len(pre) + 1)
        forms_t = pre[:pos] + [macro] + pre[pos:] + [use]
        text = "\n".join(forms_t) + rng.choice(["", "\n"])
        cases.append({"fault": "builtin-fault-in-template", "context": macro.split()[1], "text": text, "nforms": len(forms_t), "offender": None, "ndefs": 0})
    # an unbound identifier that is itself an operand of a macro use (the expansion IS the user's identifier): it keeps its own location
    for k in range(per_cell * 2):
        name = "nosuch%d" % rng.randint(1000, 9999)
        shape = rng.choice(["(and #t %s)", "(and 1 2 %s)", "(or #f %s)", "(or #f #f %s)", "(cond (#f 1) (%s))", "(begin %s)", "(when #t 1 %s)", "(let () %s)", "(let* ((a 1)) %s)",
                            "(ident %s)", "(ident (ident %s))", "(case 1 ((1) %s))", "(unless #f %s)", "(cond (else %s))", "(list 1 (and #t %s))", "(if (or #f %s) 1 2)"])
        pre = ["(define-syntax ident (syntax-rules () ((ident x) x)))"] + ["(define filler%d %d)" % (i, i) for i in range(rng.choice([0, 2, 9, 25]))]
        rng.shuffle(pre)
        body = shape % name
        toks = [t.text for t in sxread.tokenize(body)]
        text = "\n".join(pre) + "\n" + layout(toks, rng, rng.choice(["tight", "loose"])) + "\n"
        cases.append({"fault": "unbound-read", "context": "macro-operand", "text": text, "nforms": len(pre) + 1, "offender": name, "ndefs": 0})
    bare = []
    for k in range(per_cell):
        body = rng.choice(["(unless #f 1 2)", "(case 3 ((1 2) 'a) (else 'b))", "(unless (car '(#f)) 'x 'y)", "(case 1 ((1) => car))"])
        pre = ["(define filler%d %d)" % (i, i) for i in range(rng.choice([0, 3, 12]))]
        text = "(import (only (scheme base) car list))\n" + "\n".join(pre + [body]) + "\n"
        bare.append({"fault": "template-identifier", "context": "bundled-macro-without-its-helpers", "text": text, "nforms": len(pre) + 2, "offender": None, "ndefs": 0, "bare": True})
    cases += bare
    jobs = [{"id": "c15", "interps": [{"stdlib": not cs.get("bare"), "natives": not cs.get("bare")}], "steps": [{"src": cs["text"]}], "fuel": 100000} for cs in cases]
    from . import diff as _diff
    for ji, j in enumerate(jobs):
        if ji % 3 == 1 and not cases[ji].get("bare"):
            _diff.age(j, rng, rng.choice([5, 60]))       # locations are relative to the text being evaluated, whatever was evaluated (and failed) before
        elif ji % 3 == 2 and not cases[ji].get("bare"):
            # primed: the text of the failing form has been seen before by this interpreter, at another position, inside a procedure that is never called
            # (every macro use in it has been expanded once already)
            try:
                spans = form_spans(cases[ji]["text"])
                s0, e0, toks = spans[cases[ji]["nforms"] - 1]
                lines = cases[ji]["text"].split("\n")
                # text of the failing form, cut out by its span
                if s0[0] == e0[0]:
                    ftxt = lines[s0[0] - 1][s0[1] - 1:e0[1] - 1]
                else:
                    ftxt = "\n".join([lines[s0[0] - 1][s0[1] - 1:]] + lines[s0[0]:e0[0] - 1] + [lines[e0[0] - 1][:e0[1] - 1]])
                j["steps"] = [{"src": ";; primer\n\n   (define (zz-primer) " + ftxt + " 'primed)"}] + j["steps"]
                j["_aged"] = j.get("_aged", 0) + 1
            except Exception:
                pass
    recs = core.run_jobs(jobs, "dev", timeout=900 if tier == "quick" else 3000, tag="c15")
    for cs, rec in zip(cases, recs):
        ctx.evaluations += 1
        if rec is None or "steps" not in rec:
            ctx.inconclusive_cases += 1; continue
        kind, val = core.outcome(rec["steps"][0])
        cell = "%s/%s" % (cs["fault"], cs["context"])
        if kind != "err":
            ctx.count("not_an_error_(C08_matter)"); ctx.inconclusive_cases += 1; continue
        spans = form_spans(cs["text"])
        fi = cs["nforms"] - 1
        if fi >= len(spans):
            ctx.inconclusive_cases += 1; continue
        start, end, toks = spans[fi]
        loc = val.get("loc")
        base = {"kind": "location", "cell": cell, "fault": cs["fault"], "context": cs["context"], "errkind": val.get("kind"), "reported": loc, "form_span": [list(start), list(end)]}
        replay = {"text": cs["text"], "fault_form_index": fi}
        if loc is None:
            ctx.violation(dict(base, what="run-time error without a source location", dedupe="noloc|" + cell), replay); continue
        in_bundled = tuple(loc) in libends and not within(loc, start, end)
        in_form = within(loc, start, end)
        # offending token: occurrences of the unique name
        at_token = None
        if cs["offender"]:
            occ = [t for s0, e0, ts in spans for t in ts if t.text == cs["offender"]]
            in_failing = [t for t in toks if t.text == cs["offender"]]
            at_token = any(within(loc, t.start, t.end) for t in occ if t not in [x for x in occ if False])
            token_in_failing_form = bool(in_failing)
        if not in_form and not (cs["offender"] and at_token):
            other = next((i for i, (s0, e0, ts) in enumerate(spans) if within(loc, s0, e0)), None)
            lines = cs["text"].count("\n") + 1
            where = "bundled-source" if in_bundled else ("another-form" if other is not None else ("beyond-end-of-text" if loc[0] > lines else "between-forms"))
            ctx.violation(dict(base, what="error location lies outside the failing form", where=where, in_bundled_source=in_bundled, library_context=(cs["context"] == "library"),
                               dedupe="outside|%s|%s|%s" % (where, cs["fault"], cs["context"])), replay)
            continue
        # the operator position exists in the text only where the program itself makes the call
        operator_in_text = not (cs["fault"] == "non-procedure" and cs["context"] in ("apply", "library"))
        if cs["offender"] and cs["fault"] in ("non-procedure", "unbound-read") and operator_in_text:
            if token_in_failing_form:
                # the offending token is inside the failing form: the location must be at it
                if not any(within(loc, t.start, t.end) for t in in_failing):
                    ctx.violation(dict(base, what="%s error is not located at the offending identifier/operator" % cs["fault"], offender=cs["offender"],
                                       token_at=[[list(t.start), list(t.end)] for t in in_failing], dedupe="nottoken|%s|%s" % (cs["fault"], cs["context"])), replay)
                    continue
                ctx.count("located_at_offending_token")
            else:
                ctx.count("offender_in_earlier_form_(token_or_form_accepted)")
        ctx.count("locations_ok")
        ctx.nontriv("%s|%d|%s" % (cell, start[0], "tok" if at_token else "form"))
    ctx.legs.append("run-time")
    # ---------------- syntax errors with a known offending token
    syn = []
    for _ in range(300 if tier == "quick" else core.share(5000)):
        pre = "".join(rng.choice(["(define a 1)\n", "; c\n", "\n", "(list 1\n   2)\n", "  "]) for _ in range(rng.randint(0, 6)))
        kind = rng.randrange(6)
        body, off = [("(+ 1 2))", ")"), ("(list 1 #z 2)", "#z"), ("(display \"abc", "\"abc"), ("(list \"a\\qb\" 1)", "\"a\\qb\""), ("'(1 . 2 3)", "3"), ("(car '(1 2)", None)][kind]
        post = rng.choice(["", "\n", "\n(define later 2)\n"]) if kind not in (2, 5) else ""
        syn.append((pre + body + post, len(pre), off, kind))
    recs = core.run_jobs([{"id": "c15s", "interps": [{"stdlib": True}], "steps": [{"src": t}], "fuel": 1000} for t, _, _, _ in syn], "dev", timeout=600, tag="c15s")
    for (text, off_at, off, kind), rec in zip(syn, recs):
        ctx.evaluations += 1
        if rec is None or "steps" not in rec:
            ctx.inconclusive_cases += 1; continue
        k, val = core.outcome(rec["steps"][0])
        if k != "err":
            ctx.violation({"what": "malformed input was not reported as an error", "kind": "syntax-accepted", "text": text[-60:], "dedupe": "synacc|%d" % kind}, {"text": text}); continue
        loc = val.get("loc")
        if loc is None:
            ctx.count("syntax_errors_without_location"); continue
        # position (cursor) of the end of the offending token, or of the end of the text
        lines_total = text.count("\n") + 1
        if off is None:
            lim = (lines_total + 1, 1)
        else:
            p = (text.index("))", off_at) + 2) if kind == 0 else (text.index(off, off_at) + len(off))
            before = text[:p]
            lim = (before.count("\n") + 1, len(before) - (before.rfind("\n") + 1) + 1)
            if kind == 2:
                lim = (lines_total + 1, 1)
        if tuple(loc) <= lim and loc[0] >= 1:
            ctx.count("syntax_locations_ok"); ctx.nontriv("syn|%d|%s" % (kind, val.get("kind")))
        else:
            ctx.violation({"what": "syntax error located after the offending token", "kind": "syntax-location", "reported": loc, "limit": list(lim), "errkind": val.get("kind"),
                           "dedupe": "synloc|%d" % kind}, {"text": text})
    ctx.legs.append("syntax")
    ctx.sample({"program": cases[0]["text"][-400:], "fault": cases[0]["fault"], "context": cases[0]["context"]})
    ctx.sample({"program": cases[-1]["text"][-400:], "fault": cases[-1]["fault"], "context": cases[-1]["context"]})
    return ctx.finish(min_evals=300, min_nontrivial=50)


def replay(path):
    data = json.load(open(path))
    text = data["replay"]["text"]
    rec = core.run_jobs([{"id": "r", "interps": [{"stdlib": True}], "steps": [{"src": text}]}], "dev", shards=1, timeout=60)[0]
    print(text); print(json.dumps(rec["steps"][0])[:600])
    for i, (s, e, ts) in enumerate(form_spans(text)):
        print(i, s, e)
    return 0

"""C01 - core evaluation yields the value Scheme semantics assigns.
Monitor: typed random programs over the core forms are evaluated form by form on one interpreter; each form's value and
tick trace (operand evaluation order/multiplicity) is judged by the reference model under one consistent evaluation
strategy; four equivalent spellings of each program must also agree with each other (metamorphic, model-free)."""
import json
from . import core, diff, gen_core
from .sx import show, skeleton
from .ref_scheme import OutOfModel, Strategy

PID = "C01"
LEVEL = "exploration"


def gen_programs(ctx, n, depth):
    progs = []
    tries = 0
    while len(progs) < n and tries < n * 6:
        tries += 1
        g = gen_core.G(ctx.rng, ticks=True, max_depth=depth)
        abstract = g.program()
        variants = {}
        ok = True
        for sp in gen_core.SPELLINGS:
            forms = [gen_core.render(f, sp) for f in abstract]
            try:
                exp = diff.model_run(forms, Strategy())
            except OutOfModel:
                ok = False; break
            if any(e[0] == "err" for e in exp):
                ok = False; break
            variants[sp] = forms
        if ok:
            progs.append(variants)
        else:
            ctx.count("generated_discarded")
    return progs


def sessions(ctx, progs, n, leg):
    """long sessions: 20-30 generated programs, each in a random spelling, evaluated one after another on ONE interpreter.  Their
    global names collide, so later programs redefine the procedures and variables of earlier ones; whatever state the
    interpreter keeps between forms (caches, the global frame, macro table) has to stay exact over hundreds of forms"""
    r = ctx.rng
    sess = []
    tries = 0
    while len(sess) < n and tries < n * 4:
        tries += 1
        forms = []
        for v in r.sample(progs, min(len(progs), r.randint(20, 30))):
            forms += v[r.choice(gen_core.SPELLINGS)]
        try:
            exp = diff.model_run(forms, Strategy())
        except OutOfModel:
            ctx.count("sessions_discarded"); continue
        # a redefinition may leave an earlier closure calling a procedure of another arity: cut the session before the first error
        k = next((i for i, e in enumerate(exp) if e[0] == "err"), len(forms))
        if k < 60:
            ctx.count("sessions_discarded"); continue
        sess.append(forms[:k])
    jobs = [diff.job_for(f, "s%d" % i, fuel=400000) for i, f in enumerate(sess)]
    for i, j in enumerate(jobs):
        if i % 2:
            diff.age(j, r, r.choice([100, 500, 2000]))      # half of the sessions run on an interpreter that has already seen hundreds of failing forms
    recs = core.run_jobs(jobs, leg, timeout=3000, tag="c01s")
    for forms, rec in zip(sess, recs):
        ctx.evaluations += 1
        if rec is None or "steps" not in rec:
            if rec and "abort" in rec:
                ctx.violation({"what": "process died during a long session", "kind": "abort", "dedupe": "session-abort"}, {"forms": [show(f) for f in forms], "abort": rec["abort"]})
            else:
                ctx.inconclusive_cases += 1
            continue
        verdict, detail = diff.compare_history(forms, rec["steps"], fuel=400000)
        if verdict == "ok":
            ctx.count("sessions_agree"); ctx.count("session_forms", len(forms))
        elif verdict in ("oom", "fuel"):
            ctx.inconclusive_cases += 1
        else:
            ctx.violation({"what": "long session of core programs on one interpreter disagrees with the reference semantics", "kind": "model", "why": detail["why"],
                           "form": detail["form"], "form_index": detail["form_index"], "leg": leg, "dedupe": "session|" + detail["why"][:40]},
                          {"forms": [show(f) for f in forms], "detail": detail, "leg": leg})


def file_transport(ctx, progs, n, leg):
    r = ctx.rng
    diff.file_transport(ctx, [v[r.choice(gen_core.SPELLINGS)] for v in r.sample(progs, min(n, len(progs)))], leg, "a core program")


def values_only(steps):
    return [(json.dumps(s.get("ok"), sort_keys=True), json.dumps(s.get("trace", []))) if "ok" in s else ("E", json.dumps(s.get("err", s.get("panic")), sort_keys=True)[:80]) for s in steps]


def run(tier, seed):
    ctx = core.Ctx(PID, tier, seed, LEVEL)
    n, depth = (2500, 5) if tier == "quick" else (core.share(40000), 7)
    legs = ["dev"] if tier == "quick" else ["dev", "release"]
    ctx.rule = ("type-directed random programs over the core forms (0-5 fixed parameters, rest parameters, internal and mutually referring "
                "definitions, closures/makers/higher-order procedures, counter recursion, non-boolean tests, quote, apply) with ticking operands, "
                "each rendered in 4 spellings (define sugar / lambda / calls through apply / fixed parameters via a rest list) and evaluated form by form. "
                "distinct_nontrivial = distinct program skeletons (literals and identifiers erased) with at least one procedure call and one tick")
    ctx.assumptions = ["operand evaluation order is unspecified in R7RS: any one of 8 strategies is accepted if consistent over the whole program",
                       "integers stay below 2^20 in the model (programs exceeding it are regenerated), so C09's arithmetic cannot interfere"]
    progs = gen_programs(ctx, n, depth)
    for leg in legs:
        jobs, idx = [], []
        for i, variants in enumerate(progs):
            for sp, forms in variants.items():
                jobs.append(diff.job_for(forms, "%d-%s" % (i, sp))); idx.append((i, sp))
        recs = core.run_jobs(jobs, leg, timeout=600 if tier == "quick" else 3000, tag="c01")
        per_prog = {}
        for (i, sp), job, rec in zip(idx, jobs, recs):
            forms = progs[i][sp]
            ctx.evaluations += 1
            if rec is None or "steps" not in rec:
                if rec and "abort" in rec:
                    ctx.violation({"what": "process died while evaluating a core program", "kind": "abort", "spelling": sp}, {"forms": [show(f) for f in forms], "abort": rec["abort"]})
                else:
                    ctx.inconclusive_cases += 1
                continue
            verdict, detail = diff.compare_history(forms, rec["steps"])
            ctx.count("forms_evaluated", len(forms))
            ctx.count("ticks_observed", sum(len(s.get("trace", [])) for s in rec["steps"]))
            if verdict == "ok":
                ctx.count("programs_agree")
                ctx.count("strategy_" + repr(detail))
                text = " ".join(show(f) for f in forms)
                if "tick" in text:
                    ctx.nontriv(" ".join(skeleton(f) for f in forms))
            elif verdict in ("oom", "fuel"):
                ctx.inconclusive_cases += 1
            else:
                detail["spelling"] = sp
                ctx.violation({"what": "core program disagrees with the reference semantics", "kind": "model", "spelling": sp, "why": detail["why"],
                               "form": detail["form"], "leg": leg, "dedupe": detail["why"][:40] + sp},
                              {"forms": [show(f) for f in forms], "detail": detail, "leg": leg})
            per_prog.setdefault(i, {})[sp] = values_only(rec["steps"])
        # metamorphic: spellings agree with each other on the value and trace of every non-definition form
        for i, d in per_prog.items():
            base = d.get("plain")
            if base is None:
                continue
            for sp, v in d.items():
                ctx.count("spelling_pairs_compared")
                if v != base:
                    k = next((j for j, (a, b) in enumerate(zip(base, v)) if a != b), None)
                    ctx.violation({"what": "equivalent spellings of one program disagree", "kind": "metamorphic", "spelling": sp, "leg": leg,
                                   "form_plain": show(progs[i]["plain"][k]) if k is not None else None, "form_spelled": show(progs[i][sp][k]) if k is not None else None,
                                   "plain": base[k] if k is not None else None, "spelled": v[k] if k is not None else None, "dedupe": sp},
                                  {"plain": [show(f) for f in progs[i]["plain"]], sp: [show(f) for f in progs[i][sp]]})
        ctx.legs.append(leg)
    sessions(ctx, progs, 40 if tier == "quick" else core.share(1600), legs[-1])
    file_transport(ctx, progs, 300 if tier == "quick" else core.share(6000), legs[-1])
    for v in progs[:2]:
        ctx.sample({sp: [show(f) for f in forms] for sp, forms in list(v.items())[:2]})
    return ctx.finish(min_evals=200, min_nontrivial=50)


def replay(path):
    from . import sxread
    data = json.load(open(path))
    forms_txt = data["replay"].get("forms") or data["replay"].get("plain")
    forms = [sxread.parse_one(t) for t in forms_txt]
    rec = core.run_jobs([diff.job_for(forms)], data["replay"].get("leg", "dev"), shards=1, timeout=120)[0]
    verdict, detail = diff.compare_history(forms, rec["steps"])
    print("\n".join(forms_txt)); print(verdict, json.dumps(detail, default=str)[:1500])
    return 0 if verdict == "ok" else 1

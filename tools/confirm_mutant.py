#!/usr/bin/env python3
"""Confirm a seeded change independently of the checks: in a scratch worktree of /repo's HEAD the demonstration passes
without the change, the existing test suite passes with it, and the demonstration fails with it.
usage: confirm_mutant.py SRC_DIR(with patch.diff, demo.*, notes.md) PROPERTY NAME  -> writes /verif/seeded/<PROPERTY>-<NAME>/"""
import json, os, shutil, subprocess, sys, time

src, prop, name = sys.argv[1], sys.argv[2], sys.argv[3]
wt = "/tmp/confirm-%s-%s" % (prop, name)
tgt = "/tmp/confirm-target"
env = dict(os.environ, CARGO_NET_OFFLINE="true", CARGO_TARGET_DIR=tgt)


def sh(cmd, **kw):
    return subprocess.run(cmd, shell=True, cwd=wt, env=env, stdout=subprocess.PIPE, stderr=subprocess.STDOUT, text=True, **kw)


subprocess.run("git -C /repo worktree remove --force %s 2>/dev/null; git -C /repo worktree add -q --detach %s HEAD && cp /repo/Cargo.lock %s/" % (wt, wt, wt), shell=True, check=True)
result = {"property": prop, "name": name, "base_commit": subprocess.check_output("git -C /repo rev-parse --short HEAD", shell=True, text=True).strip()}
try:
    has_scm = os.path.exists(os.path.join(src, "demo.scm"))
    has_rs = os.path.exists(os.path.join(src, "demo_test.rs"))

    has_sh = os.path.exists(os.path.join(src, "demo.sh"))

    def run_demo():
        """returns (passed, detail)"""
        if has_sh:
            # a shell demonstration that locates the worktree root relative to itself (MUT/<name>/demo.sh) and uses target/debug
            d = os.path.join(wt, "MUT", name)
            os.makedirs(d, exist_ok=True)
            for f in os.listdir(src):
                if f != "patch.diff" and os.path.isfile(os.path.join(src, f)):
                    shutil.copy(os.path.join(src, f), os.path.join(d, f))
            e2 = dict(env); e2.pop("CARGO_TARGET_DIR", None)
            r = subprocess.run("sh MUT/%s/demo.sh" % name, shell=True, cwd=wt, env=e2, stdout=subprocess.PIPE, stderr=subprocess.STDOUT, text=True, timeout=900)
            shutil.rmtree(os.path.join(wt, "MUT"), ignore_errors=True)
            return r.returncode == 0, r.stdout[-500:]
        if has_rs:
            shutil.copy(os.path.join(src, "demo_test.rs"), os.path.join(wt, "tests", "demo_test.rs"))
            r = sh("cargo test --offline --test demo_test 2>&1 | tail -15")
            os.remove(os.path.join(wt, "tests", "demo_test.rs"))
            ok = "test result: ok" in r.stdout and "FAILED" not in r.stdout
            return ok, r.stdout[-600:]
        shutil.copy(os.path.join(src, "demo.scm"), os.path.join(wt, "demo.scm"))
        r = subprocess.run("cargo run --offline -q -- demo.scm", shell=True, cwd=wt, env=env, stdout=subprocess.PIPE, stderr=subprocess.PIPE, text=True, timeout=600)
        os.remove(os.path.join(wt, "demo.scm"))
        exp = open(os.path.join(src, "expected.txt")).read()
        # a demonstration may legitimately end in a reported error (non-zero status): only its output is compared
        return r.stdout == exp, ("rc=%d stdout=%r" % (r.returncode, r.stdout[-300:]))

    ok0, d0 = run_demo()
    result["demo_passes_without_change"] = ok0
    ap = sh("git apply %s" % os.path.join(src, "patch.diff"))
    if ap.returncode != 0:
        ap = sh("git apply --3way %s" % os.path.join(src, "patch.diff"))
    result["patch_applies"] = ap.returncode == 0
    if ap.returncode == 0:
        t = sh("cargo test --workspace --no-fail-fast --offline 2>&1 | grep -E '^test result|^error|FAILED'")
        result["suite_with_change"] = t.stdout.strip().splitlines()
        result["suite_passes_with_change"] = ("FAILED" not in t.stdout and "error" not in t.stdout and t.stdout.count("test result: ok") >= 4)
        ok1, d1 = run_demo()
        result["demo_fails_with_change"] = not ok1
        result["demo_detail_with_change"] = d1
        # store the patch relative to the current HEAD
        sh("git add -A -N -- src tests examples Cargo.toml")       # new files the change adds belong to the patch too
        diff = sh("git diff HEAD").stdout
    else:
        result["apply_error"] = ap.stdout[-500:]
    result["confirmed"] = bool(result.get("demo_passes_without_change") and result.get("suite_passes_with_change") and result.get("demo_fails_with_change"))
    if result["confirmed"]:
        out = "/verif/seeded/%s-%s" % (prop, name)
        os.makedirs(out, exist_ok=True)
        open(os.path.join(out, "patch.diff"), "w").write(diff)
        for f in ("demo.scm", "expected.txt", "demo_test.rs", "demo.sh", "input.txt", "notes.md"):
            if os.path.exists(os.path.join(src, f)):
                shutil.copy(os.path.join(src, f), os.path.join(out, f))
        meta = {"breaks_property": prop, "name": name, "origin": "independent sub-agent given only the property text and a scratch worktree",
                "needs_to_manifest": "see notes.md", "confirmation": result,
                "ran": ["demo on unchanged worktree: passes", "git apply patch.diff; cargo test --workspace --offline: all pass", "demo with the change: fails"],
                "detected_by": []}
        mp = os.path.join(out, "meta.json")
        if os.path.exists(mp):
            old = json.load(open(mp)); meta["detected_by"] = old.get("detected_by", []); meta["needs_to_manifest"] = old.get("needs_to_manifest", meta["needs_to_manifest"])
        json.dump(meta, open(mp, "w"), indent=1)
finally:
    subprocess.run("git -C /repo worktree remove --force %s" % wt, shell=True)
print(json.dumps(result, indent=1))

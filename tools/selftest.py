#!/usr/bin/env python3
"""Sanity tests of the oracles themselves (pure python, no interpreter involved): run after editing a reference model."""
import os, sys
sys.path.insert(0, os.path.dirname(os.path.dirname(os.path.abspath(__file__))))
from fractions import Fraction
from vlib import sxread, ref_macro, ref_num, diff, c12, c18
from vlib.sx import Sym as S, Vec, Dot, Real, show, f32_bits
from vlib.ref_scheme import Strategy, Machine, display_text

P = sxread.parse_one
ok = 0


def check(cond, what):
    global ok
    assert cond, what
    ok += 1


# reader / tokenizer
check(P("(a . (b c))") == [S("a"), S("b"), S("c")], "dotted tail that is a list")
check(P("'#(1 \"s\" #\\( |x y|)") == [S("quote"), Vec([1, "s", sxread.Char("("), S("x y")])], "vector literal")
kinds = lambda t: [(k.kind, k.cls) for k in sxread.tokenize(t)]
check(kinds("#tx") == [("bad", "invalid")], "#tx is one invalid token")
check(kinds("1/2x")[0][1] == "invalid" and len(kinds("1/2x")) == 1, "1/2x is one invalid token")
check(kinds(".5")[0] == ("real", "unsupported") and kinds("+.5")[0] == ("real", "supported"), "decimal classes")
check(kinds("..")[0] == ("id", "supported") and kinds("+.a")[0] == ("id", "unsupported"), "peculiar identifiers")
check(kinds("\"a\\qb\"")[0][1] == "invalid" and kinds("\"abc")[0][0] == "error", "string classes")
for bad in ["(1 . )", "( . 1)", "(1 . 2 3)", ")", "(a"]:
    try:
        P(bad); check(False, "reader accepted " + bad)
    except sxread.ReadError:
        ok += 1
# REPL completeness reference
check(c18.ref_complete("(display \"(\")") is True and c18.ref_complete("(display \"(") is False and c18.ref_complete("#\\(") is True and c18.ref_complete("(a ; )\n") is False, "ref_complete")
# evaluator
run = lambda *forms: [(k, v if k == "err" else (display_text(v) if v is not None else None), t) for k, v, t, o, _n in diff.model_run([P(f) for f in forms], Strategy())]
check(run("(define (f . r) r)", "(f 1 2)")[1][1] == "(1 2)", "rest parameters")
check(run("(define x 5)", "(or #f x)")[1][1] == "5", "hygienic or")
check(run("(let ((x 1)) (let ((x 2) (y x)) (list x y)))")[0][1] == "(2 1)", "let initialisers outside the scope")
check(run("(let* ((x 1) (y (+ x 1))) (list x y))")[0][1] == "(1 2)", "let* scopes left to right")
check(run("(case 5 ((1) => car))")[0][0] == "ok", "case without a matching clause")
check(run("(cond (1 => (lambda (v) (+ v 1))))")[0][1] == "2", "cond =>")
check(run("(car '())")[0][:2] == ("err", "type") and run("(undefined)")[0][:2] == ("err", "unbound") and run("(5 1)")[0][:2] == ("err", "not-procedure"), "error kinds")
check(run("(vector-set! '#(1) 0 2)")[0][:2] == ("err", "immutable") and run("(/ 1 0)")[0][:2] == ("err", "div0"), "error kinds 2")
check([t for t in run("(list (tick 1 1) (tick 2 2))")[0][2]] == [1, 2], "tick trace")
check(run("(map + '(1 2) '(10 20 30))")[0][1] == "(11 22)", "n-ary map stops at the shortest")
check(run("(fold-left cons '() '(1 2 3))")[0][1] == "(3 2 1)" and run("(fold-right cons '() '(1 2 3))")[0][1] == "(1 2 3)", "minischeme folds")
check(run("(append '(1) 2)")[0][1] == "(1 . 2)" and run("(append)")[0][1] == "()", "append")
libs = [P("(define-library (c) (import (scheme base)) (export next!) (begin (define n 0) (define (next!) (set! n (+ n 1)) n)))"),
        P("(define-library (u) (import (scheme base) (c)) (export use!) (begin (define (use!) (next!))))")]
r = diff.model_run([P("(import (scheme base) (c) (u))"), P("(next!)"), P("(use!)")], Strategy(), libs=libs, stdlib=False)
check(r[1][1] == 1 and r[2][1] == 2, "one library instance per program")
# macros
rules = [([S("lit"), S("x")], [S("first"), S("x")]), ([[S("k"), S("v")], S("...")], [S("second"), [S("k"), S("v")], S("...")])]
check(ref_macro.expand(rules, {"lit"}, [S("lit"), 7]) == (0, [S("first"), 7]), "first matching rule")
check(ref_macro.expand(rules, {"lit"}, [[1, 2], [3, 4]]) == (1, [S("second"), [1, 2], [3, 4]]), "ellipsis over sub-lists")
try:
    ref_macro.expand(rules, {"lit"}, [[1, 2], [3]]); check(False, "an item not fitting the sub-pattern must not match")
except ref_macro.NoMatch:
    ok += 1
# numbers
check(ref_num.fold("/", [Fraction(1), Fraction(0)]) == "div0" and ref_num.fold("+", [Fraction(1, 2), Fraction(1, 2)]) == 1, "exact folds")
check(ref_num.fold("+", [Real.of(16777216.0), Fraction(1), Fraction(1)], "left") == 16777216.0 and ref_num.fold("+", [Real.of(16777216.0), Fraction(1), Fraction(1)], "right") == 16777218.0, "binary32 association")
check(ref_num.cmp_model(Fraction(16777217), Real.of(16777216.0)) == 0 and ref_num.cmp_model(Fraction(-1, 2), Fraction(0)) == -1, "comparison model")
# import-set algebra
t = ("rename", ("prefix", ("only", ("lib",), ("a", "xa")), "x"), (("xa", "b"),))
check(c12.ev(t) == {"b": 1, "xxa": 3}, "import-set algebra")
print("selftest ok: %d assertions" % ok)

"""Reference numeric model: exact arithmetic on Fractions, binary32 via struct rounding.
+ - * / and sqrt computed in binary64 and rounded once more to binary32 are correctly rounded (53 >= 2*24+2)."""
import math
from fractions import Fraction
from .sx import Real, f32_bits, bits_f32

I32_MIN, I32_MAX = -2 ** 31, 2 ** 31 - 1


def from_json(j):
    """driver value json -> Fraction | Real | None(not a number)"""
    if not isinstance(j, dict):
        return None
    if "i" in j:
        return Fraction(j["i"])
    if "q" in j:
        a, b = j["q"]
        if b == 0:
            return ("bad-ratio", a, b)
        return Fraction(a, b)
    if "r" in j:
        return Real(j["r"])
    return None


def is_exact(x):
    return isinstance(x, Fraction)


def representable(fr):
    return I32_MIN <= fr.numerator <= I32_MAX and 1 <= fr.denominator <= I32_MAX


def small(fr, bound=2 ** 15):
    return abs(fr.numerator) < bound and fr.denominator < bound


def to_f32(x):
    """value of an operand as a binary32 number (python float that is exactly a binary32), or None if the
    conversion is not unique enough to judge (ratio components >= 2^24: component-wise and direct conversion may differ)"""
    if isinstance(x, Real):
        return x.value
    if x.denominator == 1:
        return bits_f32(f32_bits(float(x.numerator)))   # int -> f64 exact (|n| < 2^53) -> RN to f32
    if abs(x.numerator) >= 2 ** 24 or x.denominator >= 2 ** 24:
        return None
    return bits_f32(f32_bits(x.numerator / x.denominator))


def rn32(v):
    return bits_f32(f32_bits(v))


def f32_op(op, a, b):
    """IEEE binary32 operation on two binary32 values (given as python floats)"""
    try:
        if op == "+":
            r = a + b
        elif op == "-":
            r = a - b
        elif op == "*":
            r = a * b
        elif op == "/":
            if b == 0.0:
                if a == 0.0 or a != a:
                    return float("nan")
                neg = (math.copysign(1.0, a) < 0) != (math.copysign(1.0, b) < 0)
                return float("-inf") if neg else float("inf")
            r = a / b
        else:
            raise ValueError(op)
    except OverflowError:
        r = float("inf")
    return rn32(r)


def same_real(bits, v):
    """observed bits equal the binary32 value v (NaN matches any NaN)"""
    if v != v:
        return bits_f32(bits) != bits_f32(bits)
    return f32_bits(v) == (bits & 0xFFFFFFFF)


class Unjudgeable(Exception):
    pass


def fold(op, operands, order="left", bounded=False):
    """model of an n-ary + - * / over mixed operands; returns Fraction | float(binary32) | 'div0'.
    Raises Unjudgeable when a conversion to binary32 is not unique or an exact intermediate is not representable."""
    xs = list(operands)
    if bounded and any(is_exact(x) and not representable(x) for x in xs):
        raise Unjudgeable()        # an exact operand (a literal) outside the exact range is inexact from the start
    if op in "+*":
        ident = Fraction(0) if op == "+" else Fraction(1)
        seq = [ident] + xs if order == "left" else xs + [ident]
    else:
        if len(xs) == 1:
            seq = [Fraction(0) if op == "-" else Fraction(1)] + xs
        else:
            seq = xs
    def step(a, b):
        if isinstance(a, str):
            return a
        if is_exact(a) and is_exact(b):
            if op == "/":
                if b == 0:
                    return "div0"
                r = a / b
            elif op == "+":
                r = a + b
            elif op == "-":
                r = a - b
            else:
                r = a * b
            if bounded and not representable(r):
                # the exact intermediate does not fit the interpreter's exact range: it turns inexact there, by a conversion the property does not fix
                raise Unjudgeable()
            return r
        fa = to_f32(a) if is_exact(a) else (a.value if isinstance(a, Real) else a)
        fb = to_f32(b) if is_exact(b) else (b.value if isinstance(b, Real) else b)
        if fa is None or fb is None:
            raise Unjudgeable()
        if (is_exact(a) and not representable(a)) or (is_exact(b) and not representable(b)):
            raise Unjudgeable()
        return f32_op(op, fa, fb)
    if order == "left" or op in "-/":
        acc = seq[0]
        if isinstance(acc, Real):
            acc = acc.value
        for b in seq[1:]:
            acc = step(acc, b)
        return acc
    acc = seq[-1]
    if isinstance(acc, Real):
        acc = acc.value
    for a in reversed(seq[:-1]):
        acc = step(a, acc)
    return acc


def cmp_model(a, b):
    """-1/0/1 or None (unordered) per C10: exact x exact by Fraction order, mixed after converting the exact one to binary32"""
    if is_exact(a) and is_exact(b):
        return (a > b) - (a < b)
    fa = to_f32(a) if is_exact(a) else a.value
    fb = to_f32(b) if is_exact(b) else b.value
    if fa is None or fb is None:
        raise Unjudgeable()
    if fa != fa or fb != fb:
        return None
    return (fa > fb) - (fa < fb)

"""Reference tokenizer and reader for the R7RS lexical grammar (decimal radix), written from the report; shares no code
with Ruschm.  Every token text is classified as
   supported    - must yield exactly this datum
   unsupported  - valid R7RS that Ruschm documents/tests as not implemented: may be rejected, or read correctly,
                  but must not be silently split into other tokens
   invalid      - must be rejected
"""
import re
from fractions import Fraction
from .sx import Sym, Char, Real, Vec, Dot, f32_bits

DELIMS = set(" \t\n\r|()\";")
WS = set(" \t\n\r")
INITIAL = set("abcdefghijklmnopqrstuvwxyzABCDEFGHIJKLMNOPQRSTUVWXYZ!$%&*/:<=>?^_~")
SUBSEQ = INITIAL | set("0123456789+-.@")
SIGN_SUBSEQ = INITIAL | set("+-@")
CHAR_NAMES = {"alarm", "backspace", "delete", "escape", "newline", "null", "return", "space", "tab"}
I32_MIN, I32_MAX = -2 ** 31, 2 ** 31 - 1


class Tok:
    __slots__ = ("kind", "value", "cls", "start", "end", "text", "pos", "endpos")

    def __init__(self, kind, value, cls, start, end, text, pos=0, endpos=0):
        self.kind, self.value, self.cls, self.start, self.end, self.text, self.pos, self.endpos = kind, value, cls, start, end, text, pos, endpos

    def __repr__(self):
        return "Tok(%s,%r,%s,%r)" % (self.kind, self.value, self.cls, self.text)


class ReadError(Exception):
    def __init__(self, msg, cls="invalid", tok=None):
        Exception.__init__(self, msg)
        self.cls, self.tok = cls, tok


def is_identifier(a):
    if not a:
        return False
    if a[0] in INITIAL:
        return all(c in SUBSEQ for c in a[1:])
    if a in ("+", "-"):
        return True
    if a[0] in "+-":
        if len(a) >= 2 and a[1] in SIGN_SUBSEQ:
            return all(c in SUBSEQ for c in a[2:])
        if len(a) >= 3 and a[1] == "." and (a[2] in SIGN_SUBSEQ or a[2] == "."):
            return all(c in SUBSEQ for c in a[3:])
        return False
    if a[0] == ".":
        if len(a) >= 2 and (a[1] in SIGN_SUBSEQ or a[1] == "."):
            return all(c in SUBSEQ for c in a[2:])
        return False
    return False


RE_INT = re.compile(r"[+-]?\d+$")
RE_RAT = re.compile(r"([+-]?\d+)/(\d+)$")
RE_DEC = re.compile(r"[+-]?(\d+\.\d*|\.\d+|\d+)([eE][+-]?\d+)?$")


def classify_atom(a):
    """(kind, value, cls) of a delimiter-terminated atom not starting with # """
    if a == ".":
        return ("dot", None, "supported")
    if RE_INT.match(a):
        n = int(a)
        if I32_MIN <= n <= I32_MAX:
            return ("int", n, "supported")
        return ("int", n, "unsupported")          # implementation restriction: may be refused, never wrapped
    m = RE_RAT.match(a)
    if m:
        n, d = int(m.group(1)), int(m.group(2))
        if d == 0:
            return ("rat", None, "unsupported")
        fr = Fraction(n, d)
        if I32_MIN <= n <= I32_MAX and d <= 2 ** 32 - 1 and I32_MIN <= fr.numerator <= I32_MAX and fr.denominator <= I32_MAX:
            return ("rat", fr, "supported")
        return ("rat", fr, "unsupported")
    if RE_DEC.match(a) and not RE_INT.match(a):
        # Ruschm: digits first (or a sign), lower-case e
        body = a.lstrip("+-")
        cls = "supported"
        if body.startswith(".") and a[0] not in "+-":
            cls = "unsupported"
        if "E" in a:
            cls = "unsupported"
        try:
            v = float(a)
        except ValueError:
            return ("bad", a, "invalid")
        return ("real", a, cls)
    if is_identifier(a):
        if len(a) >= 2 and a[0] in "+-" and a[1] == ".":
            return ("id", a, "unsupported")       # sign-dot identifiers (+.a): Ruschm commits to a number after a sign and a dot
        return ("id", a, "supported")
    if a in ("+inf.0", "-inf.0", "+nan.0", "-nan.0") or re.match(r"[+-]?(\d|\.)[\d.+\-/eEi@]*$", a) and ("i" in a or "@" in a):
        return ("num", a, "unsupported")          # infinities, NaN, complex
    if any(ord(c) > 127 for c in a):
        return ("id", a, "unsupported")           # Unicode identifiers: valid R7RS, outside Ruschm's ASCII identifier set
    return ("bad", a, "invalid")


def tokenize(text):
    """list of Tok; the last one has kind 'error' when the text cannot be tokenized further"""
    toks = []
    i, n = 0, len(text)
    line, col = 1, 1

    def adv(k):
        nonlocal i, line, col
        for _ in range(k):
            if text[i] == "\n":
                line += 1; col = 1
            else:
                col += 1
            i += 1

    while i < n:
        c = text[i]
        if c in WS:
            adv(1); continue
        if c == ";":
            while i < n and text[i] not in "\n\r":
                adv(1)
            continue
        start, p0 = (line, col), i

        def emit(kind, value, cls, length):
            t = text[i:i + length]
            adv(length)
            toks.append(Tok(kind, value, cls, start, (line, col), t, p0, i))
        if c == "(":
            emit("(", None, "supported", 1); continue
        if c == ")":
            emit(")", None, "supported", 1); continue
        if c == "'":
            emit("'", None, "supported", 1); continue
        if c == "`":
            emit("`", None, "unsupported", 1); continue
        if c == ",":
            if i + 1 < n and text[i + 1] == "@":
                emit(",@", None, "unsupported", 2)
            else:
                emit(",", None, "unsupported", 1)
            continue
        if c == '"':
            j = i + 1
            out, cls, ok = [], "supported", False
            while j < n:
                ch = text[j]
                if ch == '"':
                    ok = True; break
                if ch == "\\":
                    if j + 1 >= n:
                        break
                    e = text[j + 1]
                    m = {"a": "\a", "b": "\b", "t": "\t", "n": "\n", "r": "\r", '"': '"', "\\": "\\", "|": "|"}
                    if e in m:
                        out.append(m[e]); j += 2; continue
                    if e == "x":
                        k = text.find(";", j)
                        cls = "unsupported" if (k > j + 2 and re.match(r"[0-9a-fA-F]+$", text[j + 2:k] or "-")) else "invalid"
                        j += 2; continue
                    if e in " \t\n":
                        cls = "unsupported" if cls != "invalid" else cls; j += 2; continue
                    cls = "invalid"; j += 2; continue
                out.append(ch); j += 1
            if not ok:
                emit("error", "unterminated string", "invalid", n - i); break
            emit("str", "".join(out), cls, j + 1 - i); continue
        if c == "|":
            j = text.find("|", i + 1)
            if j < 0:
                emit("error", "unterminated |identifier|", "invalid", n - i); break
            body = text[i + 1:j]
            emit("id", body, "unsupported" if "\\" in body else "supported", j + 1 - i); continue
        if c == "#":
            if i + 1 >= n:
                emit("error", "lone #", "invalid", 1); break
            d = text[i + 1]
            if d == "(":
                emit("#(", None, "supported", 2); continue
            if d == "|":
                # nested block comment
                depth, j = 1, i + 2
                while j < n and depth:
                    if text.startswith("|#", j):
                        depth -= 1; j += 2
                    elif text.startswith("#|", j):
                        depth += 1; j += 2
                    else:
                        j += 1
                emit("blockcomment", None, "unsupported" if depth == 0 else "invalid", j - i); continue
            if d == ";":
                emit("datumcomment", None, "unsupported", 2); continue
            if d == "\\":
                if i + 2 >= n:
                    emit("error", "#\\ at end", "invalid", 2); break
                j = i + 3
                while j < n and text[j] not in DELIMS:
                    j += 1
                body = text[i + 2:j]
                if len(body) == 1:
                    emit("char", body, "supported", j - i)
                elif body in CHAR_NAMES or re.match(r"x[0-9a-fA-F]+$", body):
                    emit("char", body, "unsupported", j - i)
                else:
                    emit("char", body, "invalid", j - i)
                continue
            j = i + 1
            while j < n and text[j] not in DELIMS:
                j += 1
            body = text[i:j]
            if body in ("#t", "#f"):
                emit("bool", body == "#t", "supported", j - i)
            elif body in ("#true", "#false"):
                emit("bool", body == "#true", "unsupported", j - i)
            elif body == "#u8" and j < n and text[j] == "(":
                emit("#u8(", None, "unsupported", j + 1 - i)
            elif re.match(r"#[eEiIbBoOdDxX]", body) or re.match(r"#\d+[=#]$", body) or body.startswith("#!"):
                emit("hashsyntax", body, "unsupported", j - i)
            else:
                emit("bad", body, "invalid", max(1, j - i))
            continue
        j = i
        while j < n and text[j] not in DELIMS:
            j += 1
        kind, value, cls = classify_atom(text[i:j])
        emit(kind, value, cls, j - i)
    return toks


def datum_of(tok):
    k = tok.kind
    if k == "int":
        return tok.value
    if k == "rat":
        return tok.value if tok.value.denominator != 1 else int(tok.value)
    if k == "real":
        return Real(f32_bits(float(tok.value)))
    if k == "id":
        return Sym(tok.value)
    if k == "bool":
        return tok.value
    if k == "char":
        return Char(tok.value)
    if k == "str":
        return tok.value
    raise ReadError("not a datum token %r" % tok, tok=tok)


class Reader:
    """datum reader over the token list; tracks the weakest class seen (supported < unsupported < invalid)"""

    def __init__(self, text):
        self.toks = [t for t in tokenize(text)]
        self.i = 0
        self.cls = "supported"

    def note(self, cls):
        order = {"supported": 0, "unsupported": 1, "invalid": 2}
        if order[cls] > order[self.cls]:
            self.cls = cls

    def peek(self):
        return self.toks[self.i] if self.i < len(self.toks) else None

    def next(self):
        t = self.peek()
        if t is None:
            raise ReadError("unexpected end of input", "invalid")
        self.i += 1
        if t.kind in ("error", "bad"):
            self.note("invalid")
            raise ReadError("bad token %r" % t.text, "invalid", t)
        if t.kind in ("blockcomment", "datumcomment", "hashsyntax", "#u8(", "`", ",", ",@", "num"):
            self.note("unsupported")
            raise ReadError("unsupported syntax %r" % t.text, "unsupported", t)
        self.note(t.cls)
        if t.cls == "invalid":
            raise ReadError("invalid token %r" % t.text, "invalid", t)
        return t

    def datum(self):
        t = self.next()
        if t.kind == "(":
            items = []
            while True:
                p = self.peek()
                if p is None:
                    raise ReadError("unclosed list", "invalid")
                if p.kind == ")":
                    self.next(); return items
                if p.kind == "dot":
                    self.next()
                    if not items:
                        raise ReadError("dot at the start of a list", "invalid", p)
                    tail = self.datum()
                    q = self.next()
                    if q.kind != ")":
                        raise ReadError("more than one datum after dot", "invalid", q)
                    if isinstance(tail, list):
                        return items + tail
                    if isinstance(tail, Dot):
                        return Dot(items + tail.items, tail.tail)
                    return Dot(items, tail)
                items.append(self.datum())
        if t.kind == "#(":
            items = []
            while True:
                p = self.peek()
                if p is None:
                    raise ReadError("unclosed vector", "invalid")
                if p.kind == ")":
                    self.next(); return Vec(items)
                items.append(self.datum())
        if t.kind == "'":
            return [Sym("quote"), self.datum()]
        if t.kind == ")":
            raise ReadError("unmatched )", "invalid", t)
        if t.kind == "dot":
            raise ReadError("dot outside a list", "invalid", t)
        return datum_of(t)

    def read_all(self):
        out = []
        while self.peek() is not None:
            out.append(self.datum())
        return out


def parse_one(text):
    r = Reader(text)
    d = r.datum()
    if r.peek() is not None:
        raise ReadError("more than one datum in %r" % text)
    return d


def parse_all(text):
    return Reader(text).read_all()

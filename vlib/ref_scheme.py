"""Reference evaluator for the core and derived forms of R7RS over a store model; shares no code with Ruschm.

Programs are sx data (see sx.py).  Derived forms are native special forms (hence hygienic).  R7RS leaves the order of
operand evaluation unspecified, so the evaluator is parameterised by a Strategy; an observed history must agree with one
strategy consistently.
"""
import math, sys
from fractions import Fraction
from .sx import Sym, Char, Real, Vec, Dot, RatLit, show_real, f32_bits

sys.setrecursionlimit(20000)


class SErr(Exception):
    """a Scheme run-time error of a given kind"""

    def __init__(self, kind, detail=""):
        Exception.__init__(self, "%s: %s" % (kind, detail))
        self.kind, self.detail = kind, detail


class OutOfModel(Exception):
    """the program left the modelled subset (e.g. integers beyond the bound): regenerate / skip"""


class Nil:
    __slots__ = ()

    def __repr__(self):
        return "NIL"


NIL = Nil()


class Void:
    __slots__ = ()

    def __repr__(self):
        return "VOID"


VOID = Void()


class Pair:
    __slots__ = ("car", "cdr")

    def __init__(self, car, cdr):
        self.car, self.cdr = car, cdr


class VecObj:
    __slots__ = ("items", "mutable", "ident")

    def __init__(self, items, mutable, ident):
        self.items, self.mutable, self.ident = items, mutable, ident


class Closure:
    __slots__ = ("params", "rest", "body", "env", "name")

    def __init__(self, params, rest, body, env, name=None):
        self.params, self.rest, self.body, self.env, self.name = params, rest, body, env, name


class Builtin:
    __slots__ = ("name", "fn", "min", "max")

    def __init__(self, name, fn, mn, mx):
        self.name, self.fn, self.min, self.max = name, fn, mn, mx


class Frame:
    __slots__ = ("vars", "parent")

    def __init__(self, parent=None):
        self.vars, self.parent = {}, parent

    def lookup(self, name):
        f = self
        while f is not None:
            if name in f.vars:
                return f
            f = f.parent
        return None


class Strategy:
    __slots__ = ("op_first", "ltr", "late_check")

    def __init__(self, op_first=True, ltr=True, late_check=True):
        self.op_first, self.ltr, self.late_check = op_first, ltr, late_check

    def __repr__(self):
        return "Strategy(op_first=%s, ltr=%s, late_check=%s)" % (self.op_first, self.ltr, self.late_check)


def all_strategies():
    out = [Strategy(True, True, True)]
    for op in (True, False):
        for ltr in (True, False):
            for late in (True, False):
                if (op, ltr, late) != (True, True, True):
                    out.append(Strategy(op, ltr, late))
    return out


INT_BOUND = 2 ** 20


def libname(d):
    return [x.name if isinstance(x, Sym) else x for x in d]


def lst(items, tail=NIL):
    r = tail
    for x in reversed(items):
        r = Pair(x, r)
    return r


def list_items(v, what="list"):
    """python list of a proper list value; type error otherwise"""
    out = []
    while isinstance(v, Pair):
        out.append(v.car); v = v.cdr
    if v is not NIL:
        raise SErr("type", "improper %s" % what)
    return out


def truthy(v):
    if v is VOID:
        raise OutOfModel("an unspecified value used as a test")
    return v is not False


def is_number(v):
    return isinstance(v, (int, Fraction, Real)) and not isinstance(v, bool)


class Machine:
    """one interpreter instance of the model"""

    def __init__(self, strategy=None, with_tick=True, stdlib=True):
        self.strategy = strategy or Strategy()
        self.trace = []
        self.out = []
        self.next_vec = 0
        self.steps = 0
        self.max_steps = 400000
        self.glob = Frame()
        self.install_builtins(with_tick)
        # module system: sources registered by name, one instance per machine (= per program)
        self.lib_sources = {}
        self.lib_instances = {}
        self.lib_loading = []
        base = {k: v for k, v in self.glob.vars.items() if k not in ("tick", "display")}
        self.native_libs = {("scheme", "base"): base, ("scheme", "write"): {"display": self.glob.vars["display"]}}
        if not stdlib:
            keep = {k: v for k, v in self.glob.vars.items() if k == "tick"}
            self.glob = Frame(); self.glob.vars.update(keep)

    # ---------------------------------------------------------------- libraries
    def register_library(self, form):
        """form: (define-library (name...) decl...)"""
        self.lib_sources[tuple(libname(form[1]))] = form

    def library(self, name):
        name = tuple(name)
        if name in self.lib_instances:
            return self.lib_instances[name]
        if name in self.native_libs:
            return self.native_libs[name]
        if name in self.lib_loading:
            raise SErr("cycle", repr(name))
        if name not in self.lib_sources:
            raise SErr("notfound", repr(name))
        form = self.lib_sources[name]
        self.lib_loading.append(name)
        try:
            env = Frame()
            exports = []
            for decl in form[2:]:
                h = decl[0].name
                if h == "import":
                    self.import_into(decl[1:], env)
                elif h == "export":
                    for e in decl[1:]:
                        if isinstance(e, Sym):
                            exports.append((e.name, e.name))
                        else:
                            exports.append((e[1].name, e[2].name))
                elif h == "begin":
                    for f in decl[1:]:
                        if isinstance(f, list) and f and f[0] == Sym("define"):
                            self.do_define(f, env)
                        elif isinstance(f, list) and f and f[0] == Sym("define-syntax"):
                            # a macro of the library (the generators never use it as a macro): an opaque binding, visible to importers only if exported
                            env.vars[f[1].name] = Sym("#<transformer>")
                            continue
                        else:
                            self.ev(f, env)
            inst = {}
            for frm, to in exports:
                if frm not in env.vars:
                    raise SErr("unbound", frm)
                inst[to] = env.vars[frm]
        finally:
            self.lib_loading.pop()
        self.lib_instances[name] = inst
        return inst

    def import_set(self, s):
        if isinstance(s, list) and s and isinstance(s[0], Sym) and s[0].name in ("only", "except", "prefix", "rename") and len(s) > 1 and isinstance(s[1], list):
            k = s[0].name
            m = self.import_set(s[1])
            if k == "only":
                ids = {x.name for x in s[2:]}
                return {n: v for n, v in m.items() if n in ids}
            if k == "except":
                ids = {x.name for x in s[2:]}
                return {n: v for n, v in m.items() if n not in ids}
            if k == "prefix":
                return {s[2].name + n: v for n, v in m.items()}
            ren = {a.name: b.name for a, b in s[2:]}
            return {ren.get(n, n): v for n, v in m.items()}
        return dict(self.library(libname(s)))

    def import_into(self, sets, env):
        acc = {}
        for s in sets:
            acc.update(self.import_set(s))
        env.vars.update(acc)

    # ---------------------------------------------------------------- data
    def datum(self, d):
        """quoted datum -> value (literal vectors are immutable)"""
        if isinstance(d, list):
            return lst([self.datum(x) for x in d])
        if isinstance(d, Dot):
            return lst([self.datum(x) for x in d.items], self.datum(d.tail))
        if isinstance(d, Vec):
            return self.new_vec([self.datum(x) for x in d.items], False)
        if isinstance(d, RatLit):
            return self.norm(Fraction(d.n, d.d))
        return d

    def new_vec(self, items, mutable):
        self.next_vec += 1
        return VecObj(items, mutable, self.next_vec)

    def num(self, v):
        if isinstance(v, bool) or not isinstance(v, (int, Fraction, Real)):
            raise SErr("type", "not a number")
        return v

    def norm(self, v):
        if isinstance(v, Fraction):
            if v.denominator == 1:
                v = int(v)
            elif abs(v.numerator) >= INT_BOUND or v.denominator >= INT_BOUND:
                raise OutOfModel("ratio out of bound")
        if isinstance(v, int) and not isinstance(v, bool) and abs(v) >= INT_BOUND:
            raise OutOfModel("integer out of bound")
        return v

    # ---------------------------------------------------------------- eval
    def eval_toplevel(self, form):
        """evaluate one top-level form; returns the value or None for a definition"""
        if isinstance(form, list) and form and form[0] == Sym("define"):
            self.do_define(form, self.glob)
            return None
        if isinstance(form, list) and form and form[0] == Sym("import") and self.glob.lookup("import") is None:
            self.import_into(form[1:], self.glob)
            return None
        return self.ev(form, self.glob)

    def do_define(self, form, env):
        target = form[1]
        if isinstance(target, Sym):
            v = self.ev(form[2], env)
            if isinstance(v, Closure) and v.name is None:
                v.name = target.name
            env.vars[target.name] = v
        elif isinstance(target, list):
            name = target[0].name
            env.vars[name] = Closure([p.name for p in target[1:]], None, form[2:], env, name)
        elif isinstance(target, Dot):
            if target.items:
                name = target.items[0].name
                env.vars[name] = Closure([p.name for p in target.items[1:]], target.tail.name, form[2:], env, name)
            else:
                raise SErr("syntax", "bad define")
        else:
            raise SErr("syntax", "bad define")

    def body(self, forms, env):
        """procedure body: internal definitions then expressions; value of the last expression"""
        i = 0
        while i < len(forms) and isinstance(forms[i], list) and forms[i] and forms[i][0] == Sym("define"):
            self.do_define(forms[i], env); i += 1
        if i >= len(forms):
            raise SErr("syntax", "no expression in body")
        r = VOID
        for f in forms[i:]:
            r = self.ev(f, env)
        return r

    def ev(self, x, env):
        self.steps += 1
        if self.steps > self.max_steps:
            raise OutOfModel("step budget")
        if isinstance(x, Sym):
            f = env.lookup(x.name)
            if f is None:
                raise SErr("unbound", x.name)
            return f.vars[x.name]
        if isinstance(x, (bool, int, Fraction, Real, str, Char)):
            return x
        if isinstance(x, (Vec, RatLit)):
            return self.datum(x)
        if isinstance(x, list):
            if not x:
                raise SErr("syntax", "empty application")
            h = x[0]
            if isinstance(h, Sym):
                sf = SPECIAL.get(h.name)
                if sf is not None and env.lookup(h.name) is None:
                    return sf(self, x, env)
            return self.application(x, env)
        raise SErr("syntax", "cannot evaluate %r" % (x,))

    def application(self, x, env):
        st = self.strategy
        n = len(x) - 1
        vals = [None] * n
        order = list(range(n)) if st.ltr else list(range(n - 1, -1, -1))
        if st.op_first:
            f = self.ev(x[0], env)
            if not st.late_check:
                self.check_proc(f)
            for i in order:
                vals[i] = self.ev(x[i + 1], env)
        else:
            for i in order:
                vals[i] = self.ev(x[i + 1], env)
            f = self.ev(x[0], env)
        self.check_proc(f)
        return self.apply(f, vals)

    def check_proc(self, f):
        if not isinstance(f, (Closure, Builtin)):
            raise SErr("not-procedure", repr(f))

    def apply(self, f, args):
        self.steps += 1
        if self.steps > self.max_steps:
            raise OutOfModel("step budget")
        if isinstance(f, Builtin):
            if len(args) < f.min or (f.max is not None and len(args) > f.max):
                raise SErr("arity", f.name)
            return f.fn(self, *args)
        if isinstance(f, Closure):
            np = len(f.params)
            if len(args) < np or (f.rest is None and len(args) > np):
                raise SErr("arity", f.name or "lambda")
            fr = Frame(f.env)
            for p, a in zip(f.params, args):
                fr.vars[p] = a
            if f.rest is not None:
                fr.vars[f.rest] = lst(args[np:])
            return self.body(f.body, fr)
        raise SErr("not-procedure", repr(f))

    # ---------------------------------------------------------------- builtins
    def install_builtins(self, with_tick):
        g = self.glob.vars

        def B(name, mn, mx):
            def deco(fn):
                g[name] = Builtin(name, fn, mn, mx)
                return fn
            return deco

        if with_tick:
            @B("tick", 2, 2)
            def _tick(m, k, v):
                m.trace.append(k); return v

        @B("car", 1, 1)
        def _car(m, p):
            if not isinstance(p, Pair):
                raise SErr("type", "car")
            return p.car

        @B("cdr", 1, 1)
        def _cdr(m, p):
            if not isinstance(p, Pair):
                raise SErr("type", "cdr")
            return p.cdr

        def cxr(path):
            def fn(m, p):
                for c in reversed(path):
                    if not isinstance(p, Pair):
                        raise SErr("type", "c%sr" % path)
                    p = p.car if c == "a" else p.cdr
                return p
            return fn
        for path in ["aa", "ad", "da", "dd", "aaa", "aad", "ada", "add", "daa", "dad", "dda", "ddd"]:
            g["c%sr" % path] = Builtin("c%sr" % path, cxr(path), 1, 1)

        @B("cons", 2, 2)
        def _cons(m, a, b):
            return Pair(a, b)

        @B("list", 0, None)
        def _list(m, *a):
            return lst(list(a))

        @B("make-list", 2, 2)
        def _make_list(m, k, fill):
            if not isinstance(k, int) or isinstance(k, bool):
                raise SErr("type", "make-list")
            return lst([fill] * max(0, k))

        @B("null?", 1, 1)
        def _null(m, a):
            return a is NIL

        @B("pair?", 1, 1)
        def _pairp(m, a):
            return isinstance(a, Pair)

        @B("list?", 1, 1)
        def _listp(m, a):
            while isinstance(a, Pair):
                a = a.cdr
            return a is NIL

        @B("append", 0, None)
        def _append(m, *ls):
            if not ls:
                return NIL
            res = ls[-1]
            for l in reversed(ls[:-1]):
                res = lst(list_items(l, "append argument"), res)
            return res

        @B("map", 2, None)
        def _map(m, f, *ls):
            m.check_proc(f)
            out = []
            cur = list(ls)
            while all(isinstance(l, Pair) for l in cur):
                out.append(m.apply(f, [l.car for l in cur])); cur = [l.cdr for l in cur]
            if len(cur) == 1 and cur[0] is not NIL:
                raise SErr("type", "map on improper list")
            return lst(out)

        @B("for-each", 2, None)
        def _for_each(m, f, *ls):
            m.check_proc(f)
            cur = list(ls)
            while all(isinstance(l, Pair) for l in cur):
                m.apply(f, [l.car for l in cur]); cur = [l.cdr for l in cur]
            return VOID

        @B("fold-left", 3, 3)
        def _fold_left(m, f, init, l):
            # minischeme argument order: (f element accumulator)
            for x in list_items(l):
                init = m.apply(f, [x, init])
            return init

        @B("fold-right", 3, 3)
        def _fold_right(m, f, init, l):
            for x in reversed(list_items(l)):
                init = m.apply(f, [x, init])
            return init

        @B("list-tail", 2, 2)
        def _list_tail(m, l, k):
            if not isinstance(k, int) or isinstance(k, bool) or k < 0:
                raise SErr("type", "list-tail index")
            for _ in range(k):
                if not isinstance(l, Pair):
                    raise SErr("type", "list too short")
                l = l.cdr
            return l

        @B("list-ref", 2, 2)
        def _list_ref(m, l, k):
            t = _list_tail(m, l, k)
            if not isinstance(t, Pair):
                raise SErr("type", "list too short")
            return t.car

        @B("last-pair", 1, 1)
        def _last_pair(m, l):
            if not isinstance(l, Pair):
                raise SErr("type", "last-pair")
            while isinstance(l.cdr, Pair):
                l = l.cdr
            return l

        def mem(eq):
            def fn(m, x, l):
                while isinstance(l, Pair):
                    if eq(x, l.car):
                        return l
                    l = l.cdr
                return False
            return fn
        g["memq"] = Builtin("memq", mem(eqv), 2, 2)
        g["memv"] = Builtin("memv", mem(eqv), 2, 2)
        g["eqv?"] = Builtin("eqv?", lambda m, a, b: eqv(a, b), 2, 2)
        g["eq?"] = Builtin("eq?", lambda m, a, b: eqv(a, b), 2, 2)
        g["equal?"] = Builtin("equal?", lambda m, a, b: equal(a, b), 2, 2)
        g["not"] = Builtin("not", lambda m, a: a is False, 1, 1)
        for nm, t in [("boolean?", lambda a: isinstance(a, bool)), ("symbol?", lambda a: isinstance(a, Sym)),
                      ("string?", lambda a: isinstance(a, str)), ("char?", lambda a: isinstance(a, Char)),
                      ("number?", is_number), ("procedure?", lambda a: isinstance(a, (Closure, Builtin))),
                      ("vector?", lambda a: isinstance(a, VecObj))]:
            g[nm] = Builtin(nm, (lambda t: lambda m, a: t(a))(t), 1, 1)

        # numbers (exact only, plus a little binary32 where the generators use it)
        def arith(name, op, ident, mn):
            def fn(m, *a):
                xs = [m.num(x) for x in a]
                if any(isinstance(x, Real) for x in xs):
                    raise OutOfModel("inexact arithmetic in a general program")
                if name in "+*":
                    acc = ident
                    for x in xs:
                        acc = m.norm(op(acc, x))
                    return acc
                if len(xs) == 1:
                    xs = [ident] + xs
                acc = xs[0]
                for x in xs[1:]:
                    if name == "/" and x == 0:
                        raise SErr("div0", "/")
                    acc = m.norm(op(acc, x))
                return acc
            g[name] = Builtin(name, fn, mn, None)
        arith("+", lambda a, b: a + b, 0, 0)
        arith("*", lambda a, b: a * b, 1, 0)
        arith("-", lambda a, b: a - b, 0, 1)
        arith("/", lambda a, b: Fraction(a) / Fraction(b), 1, 1)

        def compare(name, rel):
            def fn(m, *a):
                xs = []
                res = True
                # Ruschm checks argument types lazily; the model demands numbers everywhere (generators never mix)
                for x in a:
                    xs.append(m.num(x))
                if any(isinstance(x, Real) for x in xs):
                    raise OutOfModel("inexact comparison in a general program")
                for p, q in zip(xs, xs[1:]):
                    if not rel(p, q):
                        res = False
                return res
            g[name] = Builtin(name, fn, 0, None)
        compare("=", lambda a, b: a == b); compare("<", lambda a, b: a < b); compare(">", lambda a, b: a > b)
        compare("<=", lambda a, b: a <= b); compare(">=", lambda a, b: a >= b)

        @B("abs", 1, 1)
        def _abs(m, a):
            return abs(m.num(a))

        @B("max", 1, None)
        def _max(m, *a):
            return max(m.num(x) for x in a)

        @B("min", 1, None)
        def _min(m, *a):
            return min(m.num(x) for x in a)

        @B("floor-quotient", 2, 2)
        def _fq(m, a, b):
            a, b = m.num(a), m.num(b)
            if b == 0:
                raise SErr("div0", "floor-quotient")
            return m.norm(Fraction(math.floor(Fraction(a) / Fraction(b))))

        @B("floor-remainder", 2, 2)
        def _fr(m, a, b):
            a, b = m.num(a), m.num(b)
            if b == 0:
                raise SErr("div0", "floor-remainder")
            q = math.floor(Fraction(a) / Fraction(b))
            return m.norm(Fraction(a) - Fraction(b) * q)

        # vectors
        @B("vector", 0, None)
        def _vector(m, *a):
            return m.new_vec(list(a), True)

        @B("make-vector", 2, 2)
        def _make_vector(m, k, fill):
            if not isinstance(k, int) or isinstance(k, bool):
                raise SErr("type", "make-vector")
            if k < 0:
                raise SErr("other", "negative length")
            return m.new_vec([fill] * k, True)

        @B("vector-length", 1, 1)
        def _vlen(m, v):
            if not isinstance(v, VecObj):
                raise SErr("type", "vector-length")
            return len(v.items)

        def vidx(v, k):
            if not isinstance(v, VecObj):
                raise SErr("type", "not a vector")
            if not isinstance(k, int) or isinstance(k, bool):
                raise SErr("type", "vector index")
            if k < 0 or k >= len(v.items):
                raise SErr("index", "vector index")

        @B("vector-ref", 2, 2)
        def _vref(m, v, k):
            vidx(v, k)
            return v.items[k]

        @B("vector-set!", 3, 3)
        def _vset(m, v, k, o):
            if not isinstance(v, VecObj):
                raise SErr("type", "not a vector")
            if not isinstance(k, int) or isinstance(k, bool):
                raise SErr("type", "vector index")
            if not v.mutable:
                raise SErr("immutable", "vector-set! on a literal")
            if k < 0 or k >= len(v.items):
                raise SErr("index", "vector index")
            v.items[k] = o
            return VOID

        @B("apply", 1, None)
        def _apply(m, f, *a):
            m.check_proc(f)
            args = list(a)
            if args:
                last = args.pop()
                if last is not NIL and not isinstance(last, Pair):
                    raise SErr("type", "apply: last argument is not a list")
                args += list_items(last, "apply argument")
            return m.apply(f, args)

        @B("display", 1, 1)
        def _display(m, v):
            m.out.append(display_text(v)); return VOID

        @B("newline", 0, 0)
        def _newline(m):
            m.out.append("\n"); return VOID


def eqv(a, b):
    if isinstance(a, bool) or isinstance(b, bool):
        return a is b
    if is_number(a) and is_number(b):
        if isinstance(a, Real) != isinstance(b, Real):
            return False
        if isinstance(a, Real):
            return a.value == b.value
        return Fraction(a) == Fraction(b)
    if isinstance(a, VecObj) or isinstance(b, VecObj):
        return a is b
    if isinstance(a, Pair) or isinstance(b, Pair):
        return a is b
    if a is NIL or b is NIL:
        return a is b
    if isinstance(a, (Closure, Builtin)) or isinstance(b, (Closure, Builtin)):
        return a is b
    return type(a) == type(b) and a == b


def equal(a, b):
    while isinstance(a, Pair) and isinstance(b, Pair):
        if not equal(a.car, b.car):
            return False
        a, b = a.cdr, b.cdr
    if isinstance(a, Pair) or isinstance(b, Pair):
        return False
    if isinstance(a, VecObj) and isinstance(b, VecObj):
        return a is b or (len(a.items) == len(b.items) and all(equal(x, y) for x, y in zip(a.items, b.items)))
    return eqv(a, b)


# -------------------------------------------------------------------- special forms
def sf_quote(m, x, env):
    return m.datum(x[1])


def sf_if(m, x, env):
    if truthy(m.ev(x[1], env)):
        return m.ev(x[2], env)
    if len(x) > 3:
        return m.ev(x[3], env)
    return VOID


def sf_define(m, x, env):
    m.do_define(x, env)
    return VOID


def sf_set(m, x, env):
    v = m.ev(x[2], env)
    f = env.lookup(x[1].name)
    if f is None:
        raise SErr("unbound", x[1].name)
    f.vars[x[1].name] = v
    return VOID


def sf_lambda(m, x, env):
    p = x[1]
    if isinstance(p, Sym):
        return Closure([], p.name, x[2:], env)
    if isinstance(p, Dot):
        return Closure([s.name for s in p.items], p.tail.name, x[2:], env)
    return Closure([s.name for s in p], None, x[2:], env)


def sf_begin(m, x, env):
    r = VOID
    for f in x[1:]:
        r = m.ev(f, env)
    return r


def sf_let(m, x, env):
    st = m.strategy
    binds = x[1]
    vals = [None] * len(binds)
    order = range(len(binds)) if st.ltr else range(len(binds) - 1, -1, -1)
    for i in order:
        vals[i] = m.ev(binds[i][1], env)
    fr = Frame(env)
    for b, v in zip(binds, vals):
        fr.vars[b[0].name] = v
    return m.body(x[2:], fr)


def sf_letstar(m, x, env):
    for b in x[1]:
        fr = Frame(env)
        fr.vars[b[0].name] = m.ev(b[1], env)
        env = fr
    return m.body(x[2:], Frame(env))


def sf_cond(m, x, env):
    for cl in x[1:]:
        if cl[0] == Sym("else"):
            return sf_begin(m, [None] + cl[1:], env)
        t = m.ev(cl[0], env)
        if truthy(t):
            if len(cl) == 1:
                return t
            if cl[1] == Sym("=>"):
                f = m.ev(cl[2], env)
                m.check_proc(f)
                return m.apply(f, [t])
            return sf_begin(m, [None] + cl[1:], env)
    return VOID


def sf_case(m, x, env):
    k = m.ev(x[1], env)
    for cl in x[2:]:
        hit = cl[0] == Sym("else") or any(eqv(k, m.datum(d)) for d in cl[0])
        if hit:
            if len(cl) > 2 and cl[1] == Sym("=>"):
                f = m.ev(cl[2], env)
                m.check_proc(f)
                return m.apply(f, [k])
            return sf_begin(m, [None] + cl[1:], env)
    return VOID


def sf_and(m, x, env):
    r = True
    for f in x[1:]:
        r = m.ev(f, env)
        if not truthy(r):
            return r
    return r


def sf_or(m, x, env):
    r = False
    for f in x[1:]:
        r = m.ev(f, env)
        if truthy(r):
            return r
    return r


def sf_when(m, x, env):
    if truthy(m.ev(x[1], env)):
        return sf_begin(m, [None] + x[2:], env)
    return VOID


def sf_unless(m, x, env):
    if not truthy(m.ev(x[1], env)):
        return sf_begin(m, [None] + x[2:], env)
    return VOID


SPECIAL = {"quote": sf_quote, "if": sf_if, "define": sf_define, "set!": sf_set, "lambda": sf_lambda, "begin": sf_begin,
           "let": sf_let, "let*": sf_letstar, "cond": sf_cond, "case": sf_case, "and": sf_and, "or": sf_or,
           "when": sf_when, "unless": sf_unless}


# -------------------------------------------------------------------- display and comparison with the driver's records
def display_text(v):
    if v is True:
        return "#t"
    if v is False:
        return "#f"
    if isinstance(v, int):
        return str(v)
    if isinstance(v, Fraction):
        return "%d/%d" % (v.numerator, v.denominator)
    if isinstance(v, Real):
        return show_real(v)
    if isinstance(v, Sym):
        return v.name
    if isinstance(v, str):
        return v
    if isinstance(v, Char):
        return "#\\" + v.ch
    if v is NIL:
        return "()"
    if isinstance(v, Pair):
        parts = []
        while isinstance(v, Pair):
            parts.append(display_text(v.car)); v = v.cdr
        if v is not NIL:
            return "(" + " ".join(parts) + " . " + display_text(v) + ")"
        return "(" + " ".join(parts) + ")"
    if isinstance(v, VecObj):
        return "#(" + " ".join(display_text(i) for i in v.items) + ")"
    if v is VOID:
        return "Void"
    raise OutOfModel("display of a procedure")


def match_value(v, j, alias=None, depth=0):
    """does the driver's value json `j` denote the model value `v`?  alias: dict model vector ident -> driver alias id
    (and back) filled while matching, so that the partition into objects must be the same."""
    if not isinstance(j, dict):
        return False
    if v is None:
        return j.get("none") is True
    if v is VOID:
        return True      # an unspecified value: R7RS lets the implementation return anything
    if isinstance(v, bool):
        return j.get("b") is v
    if isinstance(v, int):
        return j.get("i") == v and "i" in j
    if isinstance(v, Fraction):
        if v.denominator == 1:
            return j.get("i") == v.numerator
        q = j.get("q")
        return bool(q) and q[1] != 0 and Fraction(q[0], q[1]) == v
    if isinstance(v, Real):
        return j.get("r") == v.bits
    if isinstance(v, Sym):
        return j.get("y") == v.name
    if isinstance(v, str):
        return j.get("s") == v
    if isinstance(v, Char):
        return j.get("c") == v.ch
    if v is NIL:
        return j.get("l") == [] and j.get("t") is None
    if isinstance(v, Pair):
        if "l" not in j:
            return False
        items = j["l"]
        k = 0
        while isinstance(v, Pair):
            if k >= len(items) or not match_value(v.car, items[k], alias, depth + 1):
                return False
            k += 1; v = v.cdr
        if k != len(items):
            return False
        if v is NIL:
            return j.get("t") is None
        return j.get("t") is not None and match_value(v, j["t"], alias, depth + 1)
    if isinstance(v, VecObj):
        if "v" not in j or j.get("m") is not v.mutable:
            return False
        if alias is not None:
            a = j.get("a")
            if alias.setdefault(("m", v.ident), a) != a or alias.setdefault(("d", a), v.ident) != v.ident:
                return False
        if len(j["v"]) != len(v.items):
            return False
        return all(match_value(x, y, alias, depth + 1) for x, y in zip(v.items, j["v"]))
    if isinstance(v, Closure):
        return j.get("p") == "user"
    if isinstance(v, Builtin):
        return j.get("p") in ("builtin", "user")   # the bundled library implements part of the list library in Scheme
    return False


ERR_KINDS = {
    "not-procedure": lambda e: e["kind"] == "Logic.TypeMisMatch" and (e.get("payload") or [None, None])[1] == "Procedure",
    "arity": lambda e: e["kind"] == "Logic.ArgumentMissMatch",
    "unbound": lambda e: e["kind"] == "Logic.UnboundedSymbol",
    "type": lambda e: e["kind"] == "Logic.TypeMisMatch",
    "index": lambda e: e["kind"] == "Logic.VectorIndexOutOfBounds",
    "immutable": lambda e: e["kind"] == "Logic.RequiresMutable",
    "div0": lambda e: e["kind"] == "Logic.DivisionByZero",
    "syntax": lambda e: e["kind"].startswith("Syntax.") or e["kind"].startswith("Logic.MetaCircularSyntax"),
    "cycle": lambda e: e["kind"] == "Logic.LibraryImportCyclic",
    "notfound": lambda e: e["kind"] == "Logic.LibraryNotFound",
    "other": lambda e: True,
}


def match_error(kind, e):
    return ERR_KINDS.get(kind, lambda e: True)(e)

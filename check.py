#!/usr/bin/env python3
"""Entry point of every registered check:  ./check.py C07 --tier quick|thorough [--replay FILE]
Exit 0 = held on everything explored, 1 = violation (line `VIOLATION property=<id> replay=<path>`),
2 = inconclusive (never a VIOLATION line)."""
import argparse, importlib, json, os, sys, time, traceback

sys.path.insert(0, os.path.dirname(os.path.abspath(__file__)))
from vlib import core


def main():
    ap = argparse.ArgumentParser()
    ap.add_argument("prop", nargs="?")
    ap.add_argument("--tier", default=os.environ.get("VERIF_TIER", "quick"), choices=["quick", "thorough"])
    ap.add_argument("--replay")
    ap.add_argument("--setup", action="store_true")
    ap.add_argument("--seed", type=int, default=None)
    a = ap.parse_args()
    if a.setup:
        core.build_driver("dev"); core.build_driver("release"); core.build_cli()
        print("setup ok")
        return 0
    pid = a.prop.upper()
    seed = a.seed if a.seed is not None else int(os.environ.get("VERIF_SEED", "1") or 1)
    try:
        mod = importlib.import_module("vlib.%s" % pid.lower())
    except ImportError as e:
        print("no check for %s: %s" % (pid, e)); return 2
    if a.replay:
        return mod.replay(a.replay)
    try:
        return mod.run(a.tier, seed)
    except core.Inconclusive as e:
        return core.write_inconclusive(pid, a.tier, seed, getattr(mod, "LEVEL", "exploration"), str(e))
    except Exception:
        traceback.print_exc()
        return core.write_inconclusive(pid, a.tier, seed, getattr(mod, "LEVEL", "exploration"),
                                       "harness error: " + traceback.format_exc()[-400:])


if __name__ == "__main__":
    sys.exit(main())

"""C07 - no input can crash the interpreter.

Monitor: every input is evaluated through Interpreter::eval on the real interpreter under catch_unwind (driver),
followed by a sanity form on the same interpreter; the oracle accepts only a value / a reported error and a correct
sanity result.  Panics, aborts (signals) and a wrong sanity result are violations."""
import json, os, subprocess, tempfile
from . import core, gen_text

PID = "C07"
LEVEL = "exploration"
PROFILES = ["dev", "release", "asan"]

SANITY_DEFS = "(define zq-v 41) (define (zq-f x) (if x (zq-id x) x))"
SANITY = "(zq-id (zq-f zq-v))"
SANITY_EXPECT = {"i": 41}


def make_jobs(inputs, per_job=40, fuel=20000):
    jobs = []
    for k in range(0, len(inputs), per_job):
        chunk = inputs[k:k + per_job]
        steps = [{"src": SANITY_DEFS}]
        for (cls, text) in chunk:
            steps.append({"src": text})
            steps.append({"src": SANITY})
        jobs.append({"id": "c07-%d" % k, "interps": [{"stdlib": True, "ident": "zq-id"}], "steps": steps, "fuel": fuel,
                     "stack_limit": 32 << 20})
    return jobs


def judge(ctx, jobs, chunks, recs, leg):
    """chunks[i] = list of (cls, text) of job i"""
    for job, chunk, rec in zip(jobs, chunks, recs):
        if rec is None:
            ctx.inconclusive_cases += len(chunk); continue
        if "hang" in rec:
            si = rec["hang"].get("step", 0)
            text = chunk[(si - 1) // 2][1] if si >= 1 and (si - 1) // 2 < len(chunk) else None
            ctx.count("hang_wall_clock")
            ctx.observed.setdefault("hang_inputs", [])
            if len(ctx.observed["hang_inputs"]) < 5:
                ctx.observed["hang_inputs"].append(text)
            ctx.hangs = getattr(ctx, "hangs", [])
            if text is not None and leg in ("dev", "release") and text not in [t for t, _ in ctx.hangs]:
                ctx.hangs.append((text, leg))
            else:
                ctx.inconclusive_cases += 1
            continue
        if "abort" in rec:
            # abort before any record: attribute through the marker "<id> <step>"
            ab = rec["abort"]
            mark = (ab.get("marker") or "").split()
            si = int(mark[1]) if len(mark) == 2 and mark[1].isdigit() else None
            text = None
            if si is not None and si >= 1:
                text = chunk[(si - 1) // 2][1] if (si - 1) // 2 < len(chunk) else None
            err = ab.get("stderr", "")
            if "memory allocation of" in err:
                ctx.count("excluded_alloc_failure"); ctx.inconclusive_cases += 1
                continue
            desc = {"kind": "abort", "returncode": ab.get("returncode"), "what": "process aborted while evaluating input",
                    "input": text, "leg": leg, "stderr": err[-200:]}
            ctx.violation(desc, {"job": job, "abort": ab, "input": text})
            continue
        steps = rec.get("steps", [])
        if rec.get("setup"):
            ctx.violation({"kind": "setup", "what": "interpreter construction failed", "detail": rec["setup"]}, {"job": job})
            continue
        for i, (cls, text) in enumerate(chunk):
            a = steps[1 + 2 * i] if 1 + 2 * i < len(steps) else None
            b = steps[2 + 2 * i] if 2 + 2 * i < len(steps) else None
            kind, val = core.outcome(a)
            ctx.evaluations += 1
            ctx.count("inputs_" + cls)
            if kind == "ok":
                ctx.count("outcome_value")
            elif kind == "err":
                ctx.count("outcome_error")
                ctx.nontriv("err:" + val.get("kind", "?"))
            elif kind == "fuel":
                ctx.count("outcome_fuel"); ctx.inconclusive_cases += 1
            elif kind == "panic":
                d = core.panic_desc(val, {"what": "panic while evaluating input", "input": text, "leg": leg})
                ctx.violation(d, {"input": text, "panic": val, "class": cls})
                continue
            else:
                ctx.inconclusive_cases += 1
                continue
            ctx.nontriv("%s:%s" % (cls, kind))
            k2, v2 = core.outcome(b)
            if k2 == "ok" and v2 == SANITY_EXPECT:
                ctx.count("sanity_ok")
            elif k2 == "panic":
                d = core.panic_desc(v2, {"what": "panic in the sanity form after input", "input": text, "leg": leg, "phase": "sanity"})
                ctx.violation(d, {"input": text, "panic": v2})
            elif k2 == "fuel":
                ctx.inconclusive_cases += 1
            else:
                ctx.violation({"kind": "corrupt", "what": "sanity form after input did not evaluate to 41", "input": text,
                               "got": b, "leg": leg}, {"input": text, "sanity": b, "job_prefix": [c[1] for c in chunk[:i + 1]]})


def gen_inputs(ctx, tier):
    rng = ctx.rng
    vocab = gen_text.vocabulary()
    inputs = []
    exh_len = 3 if tier == "quick" else 4
    for s in core.mine(gen_text.exhaustive(gen_text.ALPHA20, exh_len)):
        inputs.append(("exhaustive", s))
    ctx.observed["exhaustive_len"] = exh_len
    n4 = 12000 if tier == "quick" else core.share(60000)
    L = exh_len + 1
    for _ in range(n4):
        inputs.append(("sampled_len%d" % L, "".join(rng.choice(gen_text.ALPHA20) for _ in range(rng.randint(L, L + 3)))))
    nsoup = 9000 if tier == "quick" else core.share(150000)
    for i in range(nsoup):
        inputs.append(("soup_balanced" if i % 4 else "soup_unbalanced", gen_text.soup(rng, vocab, balanced=bool(i % 4))))
    nshaped = 8000 if tier == "quick" else core.share(150000)
    for _ in range(nshaped):
        inputs.append(("shaped", gen_text.shaped(rng)))
    nmac = 8000 if tier == "quick" else core.share(150000)
    for _ in range(nmac):
        inputs.append(("macro_soup", gen_text.macro_soup(rng)))
    for _ in range(nmac):
        inputs.append(("macro_fuzz", gen_text.macro_fuzz(rng)))
    for _ in range(nmac // 2):
        inputs.append(("procedure_values", gen_text.procedure_values(rng)))
    exports = gen_text.stdlib_exports()
    for _ in range(nmac // 2):
        inputs.append(("shared_object_args", gen_text.shared_object_calls(rng, exports)))
    for t in gen_text.shared_object_sweep():
        inputs.append(("shared_object_sweep", t))
    # every exported procedure called with 0..3 arguments of assorted types, directly and from tail positions
    args_pool = ["1", "'a", "'(1 2)", "#(1 2)", "car", "\"s\"", "-1", "1/2", "1.5", "'()", "#t"]
    for name in gen_text.stdlib_exports():
        for k in range(4):
            a = " ".join(rng.choice(args_pool) for _ in range(k))
            call = "(%s %s)" % (name, a)
            for w in ("%s", "((lambda () %s))", "(let ((x 1)) %s)", "(define (zf x) (if x %s 0)) (zf 1)", "(apply %s '())".replace("%s", name) if k == 0 else "(cond (#t %s))"):
                inputs.append(("builtin_arity_type", gen_text.tame(w.replace("%s", call) if "%s" in w else w)))
    progs = gen_text.corpus_programs()
    forms = []
    for p in progs:
        forms += gen_text.split_toplevel(p)
        forms.append(gen_text.tokenize_loose(p))
    # inner definitions of the bundled libraries as stand-alone programs
    for p in progs:
        toks = gen_text.tokenize_loose(p)
        if "define-library" in toks:
            inner = toks[toks.index("begin") - 1:] if "begin" in toks else []
            forms += gen_text.split_toplevel(" ".join(inner[2:-2])) if inner else []
    forms = [f for f in forms if 1 < len(f) < 400]
    nmut = 6000 if tier == "quick" else core.share(120000)
    for _ in range(nmut):
        inputs.append(("mutant", gen_text.mutate_tokens(rng, rng.choice(forms), vocab)))
    for f in forms:
        inputs.append(("corpus", " ".join(f)))
    # vectors that contain themselves, directly and through other vectors and lists: printed, compared, searched for
    for t in ["(define v (vector 1 2)) (vector-set! v 0 v) (display v)", "(define a (vector 0)) (define b (vector a 1)) (vector-set! a 0 b) (display (list a b))",
              "(define v (vector 1 2)) (vector-set! v 1 (list v v)) (display v) (equal? v v) (eqv? v (vector-ref v 1))", "(define v (make-vector 3 0)) (vector-set! v 2 (vector v)) (display (vector v v))",
              "(define v (vector 1)) (vector-set! v 0 v) (vector-set! '#(1) 0 v)", "(define v (vector 1)) (vector-set! v 0 v) (vector-ref v v)", "(define v (vector 1)) (vector-set! v 0 v) (car v)",
              "(define v (vector 1)) (vector-set! v 0 v) (memv v (list 1 v))", "(define v (vector 1)) (vector-set! v 0 v) (equal? (list v) (list v))", "(define v (vector 1)) (vector-set! v 0 v) v"]:
        inputs.append(("self_containing", t))
    # every kind of escape in strings, |identifiers| and character literals, with code points at and beyond every boundary
    for cp in ["0", "41", "7f", "80", "d7ff", "d800", "DBFF", "dfff", "e000", "ffff", "10000", "10ffff", "110000", "ffffffff", "100000000", "", "g", "-1", "00000041"]:
        for t in ['(display "\\x%s;")' % cp, '(display "a\\x%s;b\\x%s")' % (cp, cp), "(display '|\\x%s;|)" % cp, "(display #\\x%s)" % cp, '(list "\\x%s" 1)' % cp, "#\\x%s;" % cp, '"\\u%s"' % cp, '"\\U%s"' % cp]:
            inputs.append(("escapes", t))
    for nm in ["space", "newline", "tab", "nul", "null", "alarm", "backspace", "delete", "escape", "return", "altmode", "rubout", "linefeed", "page", "SPACE", "Space", "x", "xx", "U+41"]:
        inputs.append(("escapes", "(display #\\%s)" % nm)); inputs.append(("escapes", "(list #\\%s#\\%s)" % (nm, nm)))
    for e in "abtnrfv0123456789 \\\"'?exuUN\n":
        inputs.append(("escapes", '(display "a\\%sb")' % e))
    # forms that are REJECTED as a whole (a macro definition where only an expression or an internal definition may stand) and whose rejected part
    # names what the sanity form uses: a rejected form has no effect, so the sanity form still gives 41.  (Were such a definition accepted, as R7RS
    # allows inside bodies, it would be local to that body - the sanity form is untouched either way.)
    for nm in ("zq-id", "zq-f", "if", "define", "zq-v"):
        M = "(define-syntax %s (syntax-rules () ((%s a ...) 'hijacked) ((%s . a) 'hijacked)))" % (nm, nm, nm) if nm != "zq-v" else "(define-syntax zq-v (syntax-rules () ((zq-v) 'hijacked)))"
        M2 = "(define-syntax %s (syntax-rules () ((%s a ...) 'hijacked)))" % (nm, nm)
        for t in ["(define (zz-g) %s 1)", "(define (zz-g) 1 %s)", "(define (zz-g a . r) %s)", "(define (zz-g) (define zz-a 1) %s zz-a)", "(lambda () %s 1)", "((lambda () %s 1))",
                  "(let () %s 1)", "(let ((zz-a 1)) %s zz-a)", "(let* ((zz-a 1)) 2 %s)", "(if %s 1 2)", "(if #t %s 2)", "(list %s)", "(list 1 %s 2)", "(set! zq-v %s)", "(define zz-x %s)",
                  "(cond (#t %s))", "(when #t %s)", "(case 1 ((1) %s))", "(and 1 %s)", "(or #f %s)", "(zq-id %s)", "(zq-f %s)", "(vector %s)", "(apply list %s '())",
                  "(define (zz-g) (if #t %s 1))", "(define (zz-g) (list %s))", "(define zz-x (lambda () %s 1))", "(let ((zz-a %s)) 1)", "((lambda (zz-a) 1) %s)"]:
            inputs.append(("rejected_with_effects", t % M)); inputs.append(("rejected_with_effects", t % M2))
    nh = 3000 if tier == "quick" else core.share(40000)
    for _ in range(nh):
        inputs.append(("hostile_chars", gen_text.hostile(rng, vocab)))
    # the numeric tower reached from text: arithmetic over boundary literals
    nums = ["2147483647", "-2147483648", "46341", "65536", "1/2", "-1/2", "3/65536", "1.5", "0", "-1", "1e38", "7/46341", "0.0",
            "-2147483648/3", "2147483647/2", "-2147483647/2147483646", "1/2147483647", "-2147483648/2147483647", "16777217", "1e-45", "-0.0", "3.4e38", "-1e38", "0.5"]
    ops = ["+", "-", "*", "/", "max", "min", "<", "=", ">=", "abs", "floor", "ceiling", "round", "truncate", "floor-quotient", "floor-remainder", "floor/",
           "truncate-quotient", "truncate-remainder", "quotient", "remainder", "modulo", "gcd", "lcm", "exact", "inexact", "exact->inexact", "inexact->exact",
           "numerator", "denominator", "square", "expt", "number->string", "zero?", "positive?", "negative?", "odd?", "even?", "integer?", "rational?", "exact?",
           "sqrt", "exp", "log", "atan2", "eqv?", "equal?", "make-vector", "vector-ref", "list-tail", "make-list"]
    for op in ops:
        for a in nums:
            inputs.append(("numeric", "(%s %s)" % (op, a)))
            for b in nums:
                inputs.append(("numeric", gen_text.tame("(%s %s %s)" % (op, a, b))))
    for _ in range(2000 if tier == "quick" else core.share(40000)):
        # n-ary arithmetic and compositions over the same boundary values
        k = rng.randint(3, 5)
        e = "(%s %s)" % (rng.choice(["+", "-", "*", "/", "max", "min", "<", "="]), " ".join(rng.choice(nums) for _ in range(k)))
        if rng.random() < 0.5:
            e = "(%s %s)" % (rng.choice(["floor", "ceiling", "abs", "-", "/", "exact", "number->string"]), e)
        inputs.append(("numeric", e))
    return inputs


def import_leg(ctx, n):
    """import declarations with unusual library names (.. . / empty names, names with separators), each as the FIRST form of a fresh interpreter, so
    that the loader really goes looking for a file; then the interpreter must still work"""
    rng = ctx.rng
    texts = [gen_text.odd_imports(rng) for _ in range(n)]
    # sequences of SUCCESSFUL declarations that bind a name again, to another value (the same name from two libraries, a rename onto an imported name, a whole
    # library after parts of it)
    rebinding = ["(import (scheme base)) (import (rename (scheme write) (display car))) (import (scheme base))",
                 "(import (only (scheme base) car cdr)) (import (rename (only (scheme base) car cdr) (car cdr) (cdr car))) (import (scheme base))",
                 "(import (prefix (scheme base) b:)) (import (rename (scheme base) (car b:cdr) (cdr b:car)))", "(import (scheme base) (rename (scheme base) (+ -) (- +)))",
                 "(import (only (scheme base) + -)) (import (rename (only (scheme base) + -) (+ -) (- +))) (import (rename (only (scheme base) * /) (* +)))",
                 "(import (scheme write)) (import (rename (scheme base) (list display))) (import (scheme write) (scheme base))"]
    texts += rebinding * 3
    jobs = [{"id": "imp%d" % i, "interps": [{"stdlib": False, "natives": False}], "steps": [{"src": t}, {"src": "(import (scheme base))"}, {"src": "(+ 40 1)"}], "fuel": 20000}
            for i, t in enumerate(texts)]
    recs = core.run_jobs(jobs, "dev", timeout=900, tag="c07i")
    for t, rec in zip(texts, recs):
        ctx.evaluations += 1
        ctx.count("inputs_odd_imports")
        if rec is None:
            ctx.inconclusive_cases += 1; continue
        if "abort" in rec or "hang" in rec:
            ctx.violation({"kind": "abort", "what": "process aborted or hung on an import declaration", "input": t, "leg": "imports", "detail": rec.get("abort") or rec.get("hang")}, {"input": t})
            continue
        for s in rec.get("steps", []):
            k, v = core.outcome(s)
            if k == "panic":
                ctx.violation(core.panic_desc(v, {"what": "panic on an import declaration with an unusual library name", "input": t, "leg": "imports"}), {"input": t, "panic": v})
                break
        else:
            k0, v0 = core.outcome(rec["steps"][0])
            ctx.nontriv("import:%s" % (v0.get("kind") if isinstance(v0, dict) and k0 == "err" else k0))
    ctx.legs.append("imports")


def file_leg(ctx):
    """program and library files that are not UTF-8, empty, directories, truncated - through eval_file (driver) and the CLI"""
    d = tempfile.mkdtemp(prefix="c07files-", dir=core.TMP)
    cases = {
        "empty.scm": b"",
        "nonutf8.scm": b"(import (scheme base))\n(define x \"\xff\xfe\")\n",
        "nonutf8b.scm": b"\xc3\x28 (display 1)",
        "trunc_string.scm": b"(import (scheme base) (scheme write))\n(display \"abc",
        "trunc_list.scm": b"(import (scheme base))\n(define (f x) (+ x",
        "trunc_char.scm": b"(import (scheme base))\n#\\",
        "crlf.scm": b"(import (scheme base) (scheme write))\r\n(display 1)\r\n",
        "nul.scm": b"(import (scheme base))\n\x00\n",
        "bom.scm": b"\xef\xbb\xbf(import (scheme base))\n1\n",
        "imports_bad_lib.scm": b"(import (scheme base) (badlib))\n1\n",
        "imports_dir_lib.scm": b"(import (scheme base) (dirlib))\n1\n",
        "imports_empty_lib.scm": b"(import (emptylib))\n1\n",
        "imports_trunc_lib.scm": b"(import (trunclib))\n1\n",
        "badlib.sld": b"(define-library (badlib) (export a) (begin (define a \"\xff\")))",
        # library files that define macros named like the bundled derived forms; one of them fails to load (unbound export)
        "imports_macro_lib.scm": b"(import (scheme base) (maclib))\n(cond (#f 0) (else 41))\n",
        "imports_macro_lib2.scm": b"(import (scheme base) (maclib two))\n1\n",
        "maclib.sld": b"(define-library (maclib) (import (scheme base)) (export a) (begin (define-syntax cond (syntax-rules () ((cond c ...) 'hijacked))) (define-syntax and (syntax-rules () ((and c ...) 'hijacked))) (define a (cond (#t 1)))))",
        "maclib/two.sld": b"(define-syntax let (syntax-rules () ((let b ...) 'hijacked)))\n(define-library (maclib two) (import (scheme base)) (export nothing-defined) (begin (define-syntax or (syntax-rules () ((or c ...) 'hijacked))) (define b 2)))",
        # import cycles between library files, the import that closes the cycle standing in a second declaration / behind an import set
        "imports_cycle.scm": b"(import (scheme base) (cyca))\n1\n",
        "imports_cycle2.scm": b"(import (scheme base))\n(import (only (cycc) c))\n1\n",
        "cyca.sld": b"(define-library (cyca) (import (scheme base)) (import (cycb)) (export a) (begin (define a 1)))",
        "cycb.sld": b"(define-library (cycb) (import (scheme base)) (import (scheme write)) (import (cyca)) (export b) (begin (define b 2)))",
        "cycc.sld": b"(define-library (cycc) (import (scheme base) (prefix (cycd) d-)) (export c) (begin (define c 3)))",
        "cycd.sld": b"(define-library (cycd) (import (scheme base)) (import (rename (cycc) (c cc))) (export d) (begin (define d 4)))",
        "emptylib.sld": b"",
        "trunclib.sld": b"(define-library (trunclib) (export a) (begin (define a 1)",
    }
    os.makedirs(os.path.join(d, "maclib"), exist_ok=True)
    for fn, data in cases.items():
        open(os.path.join(d, fn), "wb").write(data)
    os.makedirs(os.path.join(d, "dirlib.sld"), exist_ok=True)
    os.makedirs(os.path.join(d, "adir.scm"), exist_ok=True)
    progs = [fn for fn in cases if fn.endswith(".scm")] + ["adir.scm", "missing.scm"]
    jobs = []
    for fn in progs:
        jobs.append({"id": "file-" + fn, "interps": [{"stdlib": False, "natives": False}],
                     "steps": [{"file": os.path.join(d, fn)}, {"src": "(import (scheme base))"}, {"src": "(+ 40 1)"},
                               # the derived forms still work on this interpreter, on a second one, and new interpreters can be created
                               {"new": {"stdlib": True}}, {"it": 1, "src": "(cond ((and #f 1) 0) (else (let ((q (or #f 41))) q)))"}], "fuel": 20000})
    recs = core.run_jobs(jobs, "dev", shards=4, timeout=120, tag="c07f")
    for job, fn, rec in zip(jobs, progs, recs):
        ctx.evaluations += 1
        ctx.count("inputs_file_api")
        if rec is None or "abort" in (rec or {}):
            ctx.violation({"kind": "abort", "what": "process aborted on program file", "input": fn, "leg": "file-api"}, {"job": job, "rec": rec})
            continue
        st = rec["steps"]
        k, v = core.outcome(st[0])
        ctx.nontriv("file:%s:%s" % (fn, k))
        if k == "panic":
            ctx.violation(core.panic_desc(v, {"what": "panic on program/library file", "input": fn, "leg": "file-api"}), {"job": job, "rec": rec})
            continue
        # still usable: a later form evaluates (the import may be refused after the first non-import form; then (+ 40 1) is unbound - both fine, no panic)
        if len(st) >= 5:
            kn, vn = core.outcome(st[3]); ks, vs = core.outcome(st[4])
            if kn != "ok" or ks != "ok" or vs != {"i": 41}:
                ctx.violation({"kind": "corrupt", "what": "after a program/library file was evaluated a new interpreter cannot be created or its derived forms are damaged", "input": fn,
                               "new_interpreter": st[3], "sanity": st[4], "leg": "file-api", "dedupe": "file-corrupt"}, {"job": job, "rec": rec})
        for s in st[1:]:
            k2, v2 = core.outcome(s)
            if k2 == "panic":
                ctx.violation(core.panic_desc(v2, {"what": "panic after a failed program file", "input": fn, "leg": "file-api", "phase": "sanity"}), {"job": job, "rec": rec})
    # the real binary
    cli = core.build_cli()
    for fn in progs:
        p = subprocess.run([cli, os.path.join(d, fn)], stdout=subprocess.PIPE, stderr=subprocess.PIPE, cwd=core.TMP, timeout=900)
        ctx.evaluations += 1
        ctx.count("inputs_file_cli")
        ctx.nontriv("cli:%s:%d" % (fn, p.returncode))
        err = p.stderr.decode("utf8", "replace")
        if p.returncode == 101 or p.returncode < 0 or "panicked at" in err:
            m = [l for l in err.splitlines() if "panicked at" in l]
            ctx.violation({"kind": "panic", "site": "cli", "msg": core.msg_class(err.splitlines()[-1] if err else ""), "what": "ruschm FILE panicked",
                           "input": fn, "leg": "cli", "panicked_at": core.msg_class(m[0]) if m else ""},
                          {"file": fn, "bytes": repr(cases.get(fn)), "returncode": p.returncode, "stderr": err[-500:]})
    import shutil
    shutil.rmtree(d, ignore_errors=True)


def run(tier, seed):
    ctx = core.Ctx(PID, tier, seed, LEVEL)
    ctx.rule = ("inputs: every string up to the stated length over the 20-character alphabet %r (exhaustive), longer random strings over it, "
                "token soup over keywords/builtins/boundary literals (balanced and unbalanced), token mutations of the repository's own Scheme "
                "sources, hostile Unicode/control characters, boundary arithmetic, bad program/library files (API and CLI). "
                "distinct_nontrivial = distinct (input class, outcome kind) pairs, distinct error variants reached and distinct file cases: "
                "the behaviours the monitor actually saw" % "".join(gen_text.ALPHA20))
    ctx.assumptions = ["inputs nest to bounded depth; non-termination of the program (cut off by the application budget), allocation failure and deep recursion are outside the claim and counted as inconclusive cases",
                       "a step that outlives the wall-clock watchdog although the application budget is armed is re-run alone; failing to finish twice is a violation (the interpreter itself loops), once is inconclusive",
                       "catch_unwind boundary at Interpreter::eval; stack overflow and abort are detected as process death and attributed through a marker file"]
    inputs = gen_inputs(ctx, tier)
    legs = ["dev"] if tier == "quick" else ["dev", "release"]
    for leg in legs:
        per = 40
        chunks = [inputs[k:k + per] for k in range(0, len(inputs), per)]
        jobs = make_jobs(inputs, per)
        recs = core.run_jobs(jobs, leg, timeout=240 if tier == "quick" else 1500, tag="c07", env_extra={})
        judge(ctx, jobs, chunks, recs, leg)
        ctx.legs.append(leg)
    confirm_hangs(ctx)
    import_leg(ctx, 600 if tier == "quick" else core.share(12000))
    if core.PART_I == 0:
        file_leg(ctx)
        ctx.legs.append("files(api+cli)")
    if tier == "thorough":
        sanitizer_legs(ctx, inputs)
    for cls, text in inputs[:3] + inputs[len(inputs) // 2: len(inputs) // 2 + 3]:
        ctx.sample({"class": cls, "input": text})
    return ctx.finish(min_evals=1000, min_nontrivial=10)


def confirm_hangs(ctx):
    """a step that did not finish within the per-step watchdog although the program's own looping is cut off by the application budget (fuel 20000,
    a few milliseconds): the interpreter itself loops or recurses.  Each such input is run again alone, with a longer watchdog; only if it again
    fails to finish (or now dies) it is a violation - otherwise the machine was merely loaded and the case stays inconclusive"""
    hangs = getattr(ctx, "hangs", [])
    for text, leg in hangs[:6]:
        jobs = make_jobs([("hang-retry", text)], 1)
        recs = core.run_jobs(jobs, leg, shards=1, timeout=1800, tag="c07h", env_extra={"RVDRIVE_STEP_TIMEOUT_MS": "90000"})
        rec = recs[0] if recs else None
        if rec is not None and ("hang" in rec or "abort" in rec):
            how = "does not finish within 90 s" if "hang" in rec else "dies (%s)" % str((rec["abort"].get("stderr") or "")[-80:]).strip()
            ctx.violation({"kind": "hang", "what": "the interpreter %s on an input whose own procedure applications are bounded by the step budget: it loops or recurses internally" % how,
                           "input": text, "leg": leg, "dedupe": "hang"}, {"input": text})
        else:
            ctx.count("hang_not_reproduced"); ctx.inconclusive_cases += 1
    for _ in hangs[6:]:
        ctx.inconclusive_cases += 1


def sanitizer_legs(ctx, inputs):
    """ASan over a large slice, Miri over a small one (memory-safety leg of C07)."""
    from . import sanitize
    sanitize.asan_leg(ctx, inputs, make_jobs, judge)
    if core.PART_I == 0:
        # Miri costs about four orders of magnitude: one part runs a slice of 640 inputs on 16 processes
        sanitize.miri_leg(ctx, inputs, make_jobs, judge)


def replay(path):
    data = json.load(open(path))
    r = data["replay"]
    text = r.get("input")
    if text is None:
        print(json.dumps(data, indent=1)[:3000]); return 2
    jobs = make_jobs([("replay", text)], 1)
    recs = core.run_jobs(jobs, "dev", shards=1, timeout=120, tag="c07r")
    print("input: %r" % text)
    print(json.dumps(recs[0], indent=1)[:3000])
    ctx = core.Ctx(PID, "quick", 0, LEVEL)
    judge(ctx, jobs, [[("replay", text)]], recs, "dev")
    return 1 if ctx.violations else 0

"""C05 - derived forms behave as R7RS specifies.
Monitor: every ordered pair of derived forms nested in every sub-form position (exhaustive over shapes, random fillers) and
random nestings inside procedures, every sub-form position holding a ticking expression; values and tick traces (which
sub-forms ran, how often, in which order) are judged by the reference evaluator's native (hygienic) derived forms."""
import json
from . import core, diff, gen_derived
from .gen_derived import DG, FORMS, POSITIONS
from .sx import S, show, skeleton
from .ref_scheme import OutOfModel, Strategy

PID = "C05"
LEVEL = "exploration"


def usable(forms):
    try:
        exp = diff.model_run(forms, Strategy())
    except (OutOfModel, RecursionError):
        return False
    return not any(e[0] == "err" for e in exp)


def run(tier, seed):
    ctx = core.Ctx(PID, tier, seed, LEVEL)
    rng = ctx.rng
    progs = []      # (tag, forms)
    reps = 4 if tier == "quick" else core.share(32)
    for outer in FORMS:
        for pos in POSITIONS[outer]:
            for inner in FORMS:
                got = 0
                for _ in range(reps * 6):
                    g = DG(rng)
                    x, used = g.pair(outer, pos, inner)
                    if not used:
                        continue
                    forms = g.prelude + [[S("list"), x]]
                    if usable(forms):
                        progs.append(("pair:%s/%s/%s" % (outer, pos, inner), forms)); got += 1
                    if got >= reps:
                        break
                if got == 0:
                    ctx.count("pair_shapes_not_instantiated")
    npairs = len(progs)
    nrand = 3000 if tier == "quick" else core.share(150000)
    depth = 4 if tier == "quick" else 5
    while len(progs) < npairs + nrand:
        g = DG(rng, capture_rate=0.03)
        forms = g.program(rng.randint(2, depth))
        if usable(forms):
            progs.append(("random", forms))
        else:
            ctx.count("generated_discarded")
    ctx.rule = ("(a) every ordered pair (outer, inner) of the 9 derived forms with the inner form in every sub-form position of the outer one (%d positions), %d random "
                "instantiations each; (b) random nestings to depth %d inside procedures and at top level, cond/case with 1-4 clauses incl. => and else, let/let* with 0-3 "
                "bindings and shadowing, and/or with 0-4 operands, when/unless with 1-3 body forms; every sub-form position holds a ticking expression. "
                "distinct_nontrivial = distinct program skeletons that agreed with the model and contain at least two derived forms"
                % (sum(len(v) for v in POSITIONS.values()), reps, depth))
    ctx.assumptions = ["operand evaluation order of procedure calls is free (8 strategies), the order inside derived forms is fixed by R7RS",
                       "identifiers x, temp, atom-key are injected at a low rate to exercise the known-finding classifier for the unhygienic expander"]
    legs = ["dev"] if tier == "quick" else ["dev", "release"]
    from . import gen_text
    # one program in twelve runs on an aged interpreter: 60-400 forms that each fail (syntax errors inside derived forms, faults under nested
    # derived forms and calls) are evaluated first; the program's forms are judged as usual
    aged = {i: gen_text.aging(rng, rng.choice([60, 150, 400])) for i in range(len(progs)) if i % 12 == 5}
    for leg in legs:
        jobs = []
        for i, (tag, forms) in enumerate(progs):
            job = diff.job_for(forms, "p%d" % i)
            if i in aged:
                job["steps"] = [{"src": t} for t in aged[i]] + job["steps"]
            jobs.append(job)
        recs = core.run_jobs(jobs, leg, timeout=600 if tier == "quick" else 3000, tag="c05")
        for i, rec in enumerate(recs):
            if i in aged and rec and "steps" in rec:
                rec["steps"] = rec["steps"][len(aged[i]):]
                ctx.count("programs_on_aged_interpreters")
        suspects = []
        for (tag, forms), rec in zip(progs, recs):
            ctx.evaluations += 1
            if rec is None or "steps" not in rec:
                if rec and "abort" in rec:
                    ctx.violation({"what": "process died in a derived form", "kind": "abort"}, {"forms": [show(f) for f in forms], "abort": rec["abort"]})
                else:
                    ctx.inconclusive_cases += 1
                continue
            verdict, detail = diff.compare_history(forms, rec["steps"])
            ctx.count("ticks_observed", sum(len(s.get("trace", [])) for s in rec["steps"]))
            if verdict == "ok":
                ctx.count("agree_" + ("pairs" if tag.startswith("pair") else "random"))
                if tag.startswith("pair"):
                    ctx.nontriv(tag)
                ctx.nontriv(" ".join(skeleton(f) for f in forms))
            elif verdict in ("oom", "fuel"):
                ctx.inconclusive_cases += 1
            else:
                suspects.append((tag, forms, detail))
        # classify: a disagreement in a program that binds a capture-prone identifier, which disappears after alpha-renaming, is the known hygiene finding
        rename_jobs, ren = [], []
        for tag, forms, detail in suspects:
            if any(gen_derived.binds_capture_prone(f) for f in forms):
                rf = [gen_derived.alpha_rename(f) for f in forms]
                rename_jobs.append(diff.job_for(rf)); ren.append(rf)
            else:
                ren.append(None)
        rrecs = iter(core.run_jobs(rename_jobs, leg, timeout=600, tag="c05r")) if rename_jobs else iter([])
        for (tag, forms, detail), rf in zip(suspects, ren):
            hygiene = False
            if rf is not None:
                rr = next(rrecs)
                if rr and "steps" in rr and diff.compare_history(rf, rr["steps"])[0] == "ok":
                    hygiene = True
            ctx.violation({"what": "derived form disagrees with R7RS (value or order/multiplicity of evaluation)", "kind": "derived", "tag": tag, "why": detail["why"][:300],
                           "form": detail["form"][:400], "leg": leg, "hygiene_only": hygiene, "dedupe": (tag if tag != "random" else detail["why"][:30])},
                          {"forms": [show(f) for f in forms], "detail": detail, "leg": leg})
        ctx.legs.append(leg)
    diff.file_transport(ctx, [forms for tag, forms in rng.sample(progs, min(len(progs), 300 if tier == "quick" else core.share(6000))) if not any(gen_derived.binds_capture_prone(f) for f in forms)], legs[-1], "a derived-form program")
    ctx.observed["pair_programs"] = npairs
    ctx.sample({"pair": [show(f) for f in progs[0][1]]}); ctx.sample({"pair": [show(f) for f in progs[npairs // 2][1]]})
    ctx.sample({"random": [show(f) for f in progs[npairs][1]]})
    return ctx.finish(min_evals=500, min_nontrivial=100)


def replay(path):
    from . import sxread
    data = json.load(open(path))
    forms = [sxread.parse_one(t) for t in data["replay"]["forms"]]
    rec = core.run_jobs([diff.job_for(forms)], data["replay"].get("leg", "dev"), shards=1, timeout=120)[0]
    verdict, detail = diff.compare_history(forms, rec["steps"])
    print("\n".join(data["replay"]["forms"])); print(verdict, json.dumps(detail, default=str)[:1500])
    return 0 if verdict == "ok" else 1

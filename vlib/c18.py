"""C18 - a REPL session equals evaluating its forms in sequence.
(i) completeness test, exhaustive: every string up to a bounded length over a parenthesis/quote/comment alphabet - the REPL's
    submission test (hook H2) must equal token-level parenthesis depth computed by the independent tokenizer;
(ii) transcripts: random form sequences (also failing forms, strings/characters/|identifiers| containing brackets, comments)
    fed to the real binary over a pipe under several random line splittings; stdout and stderr are compared across splittings
    and with the values / display output / error messages of the same forms evaluated one after another through the library
    interface (driver) on one interpreter."""
import itertools, json, subprocess
from concurrent.futures import ThreadPoolExecutor
from . import core, sxread, gen_core, gen_derived, c08, diff
from .sx import S, show
from .ref_scheme import Strategy, OutOfModel

PID = "C18"
LEVEL = "exploration"
ALPHA = list("()\"\\;#|a \n\r")
BANNER_PREFIX = "Ruschm Version "
FAREWELL = "exited. have a nice day.\n"


def ref_complete(text):
    """token-level: complete iff no string / |identifier| / block comment is left open and every opened list is closed"""
    toks = sxread.tokenize(text)
    depth = 0
    if any(t.kind in ("bad", "error") and "unterminated" not in str(t.value) or (t.cls == "invalid" and t.kind not in ("error", "blockcomment")) for t in toks):
        return None           # lexically invalid text: evaluating it is an error either way
    for t in toks:
        if t.kind == "error" and ("unterminated" in str(t.value)):
            return False
        if t.kind in ("blockcomment", "datumcomment"):
            return None       # an open #| comment or a #; datum comment: not implemented by Ruschm, either answer is acceptable
        if t.kind in ("(", "#("):
            depth += 1
        elif t.kind == ")":
            depth -= 1
        elif t.kind == "#u8(":
            depth += 1
    return depth <= 0


STRESS_FORMS = ["(display \"(\")", "(display \")\")", "(display \"((\")", "#\\(", "#\\)", "(list #\\( 1)", "(display \";\")", "(display \"a;b\") ", "'|a(b|", "(quote |)|)",
                "(display \"\\\"(\")", "(list \"(\" #\\) '|(| 2)", "(display (list #\\( #\\)))", "(display \"two\nlines (\")", "\"#\\\\(\"", "(car '(#\\( b))",
                "(display \"first\n\nsecond\n   \nthird\")", "(display \"ends with a backslash \\\\\")", "\"\\\\\"", "(list \"a\\\\\" \"(\")", "(display \"\n\n(\n\")",
                "(display '|two\n\nlines|)", "(display \"tab\there \\\" quote (\")",
                # tokens that span lines at the top level of a submission, and lines inside such tokens that look like comments or like nothing
                "'|a\nb|", "(define |x\ny| 5)", "|x\ny|", "'|sym\n;x\nend|", "(display \"a\n; b\nc\")", "\"line1\n  ;; not a comment\nline3\"", "\"\n;\n\"", "'|\n|",
                "(display \"x\n#| not a block comment\n|# y\")", "(list \"a\n)\" '|b\n(| 1)",
                # comments that end at a bare carriage return
                "(+ 1 ; one\r 2)", "(display 1) ; then\r(display\n 2)", "(list 1 ;) \r 2)"]


def split_form(rng, text):
    """break a form into input lines at inter-token boundaries; sometimes add a comment at a line end"""
    toks = [t.text for t in sxread.tokenize(text)]
    if len(toks) <= 1:
        return text
    lines, cur = [], []
    for i, t in enumerate(toks):
        cur.append(t)
        if i + 1 < len(toks) and t != "'" and rng.random() < 0.25:      # a quote and its datum stay on one line: the REPL's rule is about lists
            line = " ".join(cur)
            if rng.random() < 0.2:
                line += rng.choice([" ; note", " ;(", " ; \"", " ;) |", " ;; (unclosed \"quote"])
            lines.append(line); cur = []
    lines.append(" ".join(cur))
    return "\n".join(lines)


def split_inside(rng, text):
    """like split_form, but never ends the text with a line-end comment (another form follows on the same line)"""
    t = split_form(rng, text)
    last = t.rsplit("\n", 1)[-1]
    if ";" in last and not ('"' in last or "|" in last or "#\\" in last):
        t = t[: len(t) - len(last)] + last.split(";")[0].rstrip()
    return t


def gen_session(rng):
    """list of form texts, one submission each"""
    forms = []
    kind = rng.random()
    if rng.random() < 0.05:
        # a long session: 100-250 submissions with a running counter, and one very long input line
        forms = ["(define n 0)", "(define (bump!) (set! n (+ n 1)) n)"]
        for i in range(rng.randint(100, 250)):
            forms.append(rng.choice(["(bump!)", "n", "(set! n (+ n 2))", "(define k%d n)" % i, "(list n (bump!))", "(car '())", "(undefined-thing)", "(display n)", "(if (> n 50) 'big 'small)"]))
        forms.insert(rng.randrange(len(forms)), "(apply + (list %s))" % " ".join(str(rng.randint(0, 9)) for _ in range(rng.choice([500, 3000]))))
        forms.append("(list n (bump!))")
        return forms
    if kind < 0.45:
        g = gen_core.G(rng, ticks=False, max_depth=4)
        forms = [show(gen_core.render(f, "plain")) for f in g.program()]
    elif kind < 0.8:
        g = gen_derived.DG(rng)
        g.tk = lambda e: e          # no tick native in the real REPL
        forms = [show(f) for f in g.program(rng.randint(2, 3))]
    else:
        forms = ["(define a 1)", "(define (f x) (* x 2))", "(f a)", "(set! a 10)", "a"]
    # displays, failing forms and bracket-laden literals at random places
    extra = rng.sample(STRESS_FORMS, rng.randint(1, 4)) + rng.sample(["(car '())", "(undefined-thing)", "(vector-ref (vector 1) 5)", "(f)", "(/ 1 0)", "(1 2)", "(display (list 1 \"two\" 'three))",
                                                                     "(newline)", "(display 42)", "(define zz 3)", "zz", "(if #f #f)", "\"a string\"", "'sym", "#t", "1/2", "(vector 1 2)", "'(1 . 2)"], rng.randint(2, 6))
    for e in extra:
        forms.insert(rng.randrange(len(forms) + 1), e)
    # blocks of consecutive submissions: the SAME text entered several times in a row (each entry is evaluated), values whose printed text ends in blanks
    # or a line break, and a definition whose value expression has an effect, entered after a line that printed something and before one that fails
    blocks = [["(define rn 0)", "(set! rn (+ rn 1))", "(set! rn (+ rn 1))", "(set! rn (+ rn 1))", "rn", "rn"],
              ["(define rv (vector 0))", "(vector-set! rv 0 (+ 1 (vector-ref rv 0)))", "(vector-set! rv 0 (+ 1 (vector-ref rv 0)))", "rv", "(car 1)", "(car 1)", "rv"],
              ["\"trailing blanks  \"", "\"ends in a line break\\n\"", "'|a |", "(list \"x \")", "\"   \"", "\"\\t\""],
              ["(define tk 0)", "(define (tick!) (set! tk (+ tk 1)) tk)", "(tick!)", "(define ta (tick!))", "(car 5)", "ta", "tk", "(define tb (tick!))", "(define tc (tick!))", "(list ta tb tc tk)"],
              ["(display \"same\")", "(display \"same\")", "(newline)", "(newline)", "'same", "'same", "(undefined-thing)", "(undefined-thing)"]]
    for b in rng.sample(blocks, rng.choice([0, 1, 1, 2])):
        pos = rng.randrange(len(forms) + 1)
        forms[pos:pos] = b
    return forms


MALFORMED = ["(if)", "#z", "(lambda)", "(1 . 2 3)", "(let ((a)) a)", "(undefined-at-the-end)", "(car '())"]


def group_submissions(rng, forms, reference_ok):
    """[[form, ...], ...]: some consecutive forms share one submission (one input line). Only the last form of a shared submission may
    fail, so that 'evaluating the forms one after another' is well defined (evaluation of a submission stops at its first failing form)."""
    subs, i = [], 0
    while i < len(forms):
        k = rng.choice([1, 1, 1, 2, 3])
        grp = [forms[i]]
        j = i + 1
        while len(grp) < k and j < len(forms) and reference_ok(grp[-1]):
            grp.append(forms[j]); j += 1
        if len(grp) > 1 and reference_ok(grp[-1]) and rng.random() < 0.4:
            grp.append(rng.choice(MALFORMED))
        subs.append(grp); i = j
    return subs


def run_repl(cli, text, timeout=300):
    """(exit status, stdout, stderr) of the REPL binary fed `text` over a pipe; ("timeout", "", "") when it does not end within the wall-clock watchdog"""
    try:
        p = subprocess.run([cli], input=text.encode(), stdout=subprocess.PIPE, stderr=subprocess.PIPE, timeout=timeout)
    except subprocess.TimeoutExpired:
        return "timeout", "", ""
    return p.returncode, p.stdout.decode("utf8", "replace"), p.stderr.decode("utf8", "replace")


def run(tier, seed):
    ctx = core.Ctx(PID, tier, seed, LEVEL)
    rng = ctx.rng
    maxlen = 5 if tier == "quick" else 6
    nsess = 400 if tier == "quick" else core.share(32000)
    nsplit = 4
    ctx.rule = ("(i) every string of length <= %d over the alphabet %r: the REPL's submission test vs token-level depth (exhaustive); (ii) %d random sessions of forms from the core and "
                "derived-form generators plus failing forms, display calls and literals containing brackets/semicolons/quotes, each fed to the real binary under %d random line "
                "splittings (with comments at line ends). distinct_nontrivial = distinct (string class) for (i) and distinct sessions whose %d transcripts agreed with each other and "
                "with form-by-form evaluation through the library interface" % (maxlen, "".join(ALPHA), nsess, nsplit, nsplit))
    ctx.assumptions = ["one form per submission; the reference for (ii) is the same interpreter code driven through Interpreter::eval one form at a time (values via Display, errors via Display)",
                       "an open #| block comment (not implemented by Ruschm) may be judged either way by the submission test"]
    # ---------------- (i)
    strings = core.mine(["".join(t) for n in range(0, maxlen + 1) for t in itertools.product(ALPHA, repeat=n)])
    recs = core.run_driver("replcheck", strings, "dev" if tier == "quick" else "release", timeout=900, tag="c18c")
    for text, got in zip(strings, recs):
        ctx.evaluations += 1
        want = ref_complete(text)
        if want is None:
            ctx.count("either_way_(invalid_or_unimplemented_syntax)"); continue
        if got is want:
            ctx.nontriv("C|%s|%s" % (want, "".join(sorted(set(text) & set("\"|;#\\")))))
            ctx.count("completeness_agree")
        else:
            cls = "in-string" if "\"" in text else ("in-bars" if "|" in text else ("char-literal" if "#\\" in text else ("comment" if ";" in text else "plain")))
            ctx.violation({"what": "the REPL's submission test disagrees with token-level parenthesis depth", "kind": "completeness", "text": text, "expected_complete": want, "observed": got,
                           "dedupe": "compl|%s|%s" % (cls, want)}, {"text": text})
    ctx.exhaustive = True
    ctx.observed["exhaustive_strings"] = len(strings)
    ctx.legs.append("completeness-exhaustive")
    # ---------------- (ii)
    cli = core.build_cli()
    raw = [gen_session(rng) for _ in range(nsess)]
    # a first pass through the library interface tells which forms succeed (only such forms may be followed by others in one submission)
    pre = core.run_jobs([{"id": "p%d" % i, "interps": [{"stdlib": True}], "steps": [{"src": f} for f in forms], "fuel": 200000} for i, forms in enumerate(raw)], "dev",
                        timeout=900 if tier == "quick" else 3000, tag="c18p")
    sessions, subs_of = [], []
    for forms, rec in zip(raw, pre):
        good = set()
        if rec and "steps" in rec:
            good = {f for f, st in zip(forms, rec["steps"]) if "ok" in st and not st.get("fuel_exhausted")}
        subs = group_submissions(rng, forms, lambda f: f in good)
        subs_of.append(subs)
        sessions.append([f for grp in subs for f in grp])
    # the reference: every form evaluated by its own Interpreter::eval call, one after another on one interpreter
    jobs = [{"id": "s%d" % i, "interps": [{"stdlib": True}], "steps": [{"src": f, "disp": True} for f in forms], "fuel": 200000} for i, forms in enumerate(sessions)]
    drecs = core.run_jobs(jobs, "dev", timeout=900 if tier == "quick" else 3000, tag="c18d")
    inputs = []
    for subs in subs_of:
        variants = ["\n".join(" ".join(grp) for grp in subs) + "\n"]
        for _ in range(nsplit - 1):
            # forms are broken into lines only inside a form; the forms of one submission stay joined on a line, otherwise the REPL (rightly)
            # submits the first as soon as it is closed
            variants.append("\n".join(" ".join(split_inside(rng, f) for f in grp) for grp in subs) + "\n")
        inputs.append(variants)
    # a session with a form that used up the step budget of the library interface is not judged (below) and is not given to the REPL either, which has no budget
    bounded = [rec is not None and "steps" in rec and not any(s.get("fuel_exhausted") for s in rec["steps"]) for rec in drecs]
    flat = [(i, k, v) for i, vs in enumerate(inputs) if bounded[i] for k, v in enumerate(vs)]
    with ThreadPoolExecutor(max_workers=core.NCPU) as ex:
        outs = list(ex.map(lambda x: run_repl(cli, x[2]), flat))
    # the wall-clock watchdog decides nothing by itself: a session that did not end is run once more, alone, with a longer watchdog
    for n, ((i, k, v), o) in enumerate(zip(flat, outs)):
        if o[0] == "timeout":
            outs[n] = run_repl(cli, v, timeout=900)
    per = {}
    for (i, k, v), o in zip(flat, outs):
        per.setdefault(i, []).append((v, o))
    for i, forms in enumerate(sessions):
        ctx.evaluations += 1
        rec = drecs[i]
        if rec is None or "steps" not in rec:
            ctx.inconclusive_cases += 1; continue
        if any(s.get("fuel_exhausted") for s in rec["steps"]):
            ctx.inconclusive_cases += 1; continue
        exp_out, exp_err = "", ""
        bad_ref = False
        pos = 0
        for grp in subs_of[i]:
            steps_g = rec["steps"][pos:pos + len(grp)]; pos += len(grp)
            for gi, s in enumerate(steps_g):
                last = gi == len(grp) - 1
                exp_out += s.get("out", "")
                if "ok" in s:
                    v = s["ok"]
                    # a submission prints the value of its last form only
                    if last and not v.get("none") and not v.get("void"):
                        exp_out += v.get("disp", "?") + "\n"
                elif "err" in s:
                    exp_err += s["err"]["msg"] + "\n"
                    if not last:
                        bad_ref = True      # cannot happen by construction: only the last form of a submission may fail
                else:
                    bad_ref = True
        if bad_ref:
            ctx.count("reference_panicked_(C07_matter)"); ctx.inconclusive_cases += 1; continue
        if any(o[0] == "timeout" for v, o in per[i]):
            # every form of the session ends within the step budget through the library interface, yet the REPL did not end twice (5 and 15 minutes)
            ctx.violation({"what": "the REPL did not finish a session whose forms all terminate when evaluated one after another", "kind": "hang", "dedupe": "hang"},
                          {"input": [v for v, o in per[i] if o[0] == "timeout"][0], "forms": forms})
            continue
        ok = True
        first = None
        for v, (rc, out, err) in per[i]:
            body = out
            if not body.startswith(BANNER_PREFIX) or not body.endswith(FAREWELL):
                ok = False
                ctx.violation({"what": "REPL transcript lacks the banner or the farewell (session did not run to the end of input)", "kind": "transcript", "rc": rc, "stdout_tail": out[-200:],
                               "stderr_tail": err[-200:], "dedupe": "frame|%s" % rc}, {"input": v, "forms": forms})
                break
            body = body[body.index("\n") + 1: len(body) - len(FAREWELL)]
            if first is None:
                first = (body, err)
            if (body, err) != first:
                ok = False
                ctx.violation({"what": "the transcript depends on how the forms are split across lines", "kind": "splitting", "one": first[0][-300:], "other": body[-300:],
                               "dedupe": "split"}, {"input_a": per[i][0][0], "input_b": v, "forms": forms})
                break
            if body != exp_out or err != exp_err:
                ok = False
                # locate the first differing form for the report
                ctx.violation({"what": "REPL transcript differs from evaluating the same forms one after another", "kind": "transcript", "stream": "stdout" if body != exp_out else "stderr",
                               "expected": (exp_out if body != exp_out else exp_err)[-300:], "observed": (body if body != exp_out else err)[-300:],
                               "dedupe": "diff|%s" % ("stdout" if body != exp_out else "stderr")}, {"input": v, "forms": forms})
                break
        if ok:
            ctx.count("sessions_agree"); ctx.count("submissions", len(subs_of[i])); ctx.count("multi_form_submissions", sum(1 for g in subs_of[i] if len(g) > 1))
            ctx.nontriv("S|" + "|".join(forms)[:300])
    ctx.legs.append("transcripts")
    ctx.sample({"session_input": inputs[0][1][:600]})
    ctx.sample({"strings": strings[3000:3008]})
    return ctx.finish(min_evals=1000, min_nontrivial=100)


def replay(path):
    data = json.load(open(path))
    r = data["replay"]
    if "text" in r:
        got = core.run_driver("replcheck", [r["text"]], "dev", shards=1, timeout=60)[0]
        print(repr(r["text"]), "observed:", got, "expected:", ref_complete(r["text"]))
        return 0
    cli = core.build_cli()
    print(run_repl(cli, r.get("input") or r.get("input_b")))
    return 0

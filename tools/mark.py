#!/usr/bin/env python3
"""record which check detects a seeded change: mark.py C02-m1 "C02 quick: <what fired>" [needs-to-manifest text]"""
import json, sys
d = "/verif/seeded/%s/meta.json" % sys.argv[1]
m = json.load(open(d))
if sys.argv[2] not in m["detected_by"]:
    m["detected_by"].append(sys.argv[2])
if len(sys.argv) > 3:
    m["needs_to_manifest"] = sys.argv[3]
json.dump(m, open(d, "w"), indent=1)

"""The numeric operand grid shared by C09, C10 and C16: literals and values produced by arithmetic, so that every internal
representation of a number occurs."""
from fractions import Fraction
from .sx import Real, f32_bits, bits_f32


def lit_real(text):
    """both admissible roundings of a decimal literal: directly to binary32, or via binary64"""
    fr = Fraction(text)
    via64 = f32_bits(float(text))
    # direct: nearest binary32 to the exact decimal
    cand = [via64 - 1, via64, via64 + 1] if 0 < (via64 & 0x7FFFFFFF) < 0x7F7FFFFF else [via64]
    best = min(cand, key=lambda b: abs(Fraction(bits_f32(b)) - fr))
    return {via64, best}


def grid():
    """[(src, model value, tags)]: model value Fraction or Real; for real literals the set of admissible bit patterns is in tags['bits']"""
    g = []
    ints = [0, 1, -1, 2, -2, 3, -3, 7, -7, 10, 32767, -32767, 32768, 46340, 46341, 65536, -65536, 16777215, 16777216, 16777217,
            -16777217, 2147483647, -2147483648, -2147483647]
    for n in ints:
        g.append((str(n), Fraction(n), {}))
    for a, b in [(1, 2), (-1, 2), (3, 4), (-7, 3), (2, 4), (6, 4), (4, 2), (0, 5), (32767, 32766), (-32766, 32767), (1, 32767), (7, 7),
                 (1, 3), (-2, 3), (65537, 65536), (1, 65536), (2147483647, 2), (1, 2147483647),
                 # neighbours whose cross products differ by 1 near 2^62, and the most negative numerator
                 (2147483647, 2147483646), (2147483646, 2147483645), (-2147483647, 2147483646), (2147483645, 2147483646), (-2147483648, 2147483647),
                 (-2147483648, 3),
                 # components beyond 2^24: f32(n)/f32(d) and the correctly rounded quotient may differ
                 (16777217, 5), (33554433, 7), (-16777219, 3),
                 # written denominators beyond 2^31 (the lexer admits them up to 2^32-1) that reduce into the exact range
                 (2, 4294967294), (2147483647, 4294967294), (6, 4294967292), (3, 4294967295), (-4, 4294967292)]:
        g.append(("%d/%d" % (a, b), Fraction(a, b), {"ratio_literal": True}))
    computed = [("(/ 1 -2)", Fraction(-1, 2)), ("(+ 1/2 1/2)", Fraction(1)), ("(- 1/2)", Fraction(-1, 2)), ("(/ 6 4)", Fraction(3, 2)),
                ("(/ -6 -4)", Fraction(3, 2)), ("(* 2/3 3/2)", Fraction(1)), ("(/ 7 -7)", Fraction(-1)), ("(- 1/3 1/3)", Fraction(0)),
                ("(/ 3 -6)", Fraction(-1, 2)), ("(* -1 1/2)", Fraction(-1, 2)), ("(+ 1/4 1/4)", Fraction(1, 2)), ("(/ -4 6)", Fraction(-2, 3)),
                ("(abs -1/2)", Fraction(1, 2)), ("(/ 1 3)", Fraction(1, 3)),
                # integers and ratios that come out of max / min / abs / floor (they must be the same numbers as the literals)
                ("(max 4 1/2)", Fraction(4)), ("(min -3 1/2)", Fraction(-3)), ("(max 7/2 2 3)", Fraction(7, 2)), ("(abs -7)", Fraction(7)), ("(floor 7/2)", Fraction(3)),
                ("(min 1/2 3/4)", Fraction(1, 2))]
    for src, v in computed:
        g.append((src, v, {"computed": True}))
    # ratios and their own binary32 images (and the neighbours one ulp away): exact vs inexact comparison at a tie
    for a, b in [(7, 13), (13, 11), (31, 7), (5, 3), (-14, 13)]:
        g.append(("%d/%d" % (a, b), Fraction(a, b), {"ratio_literal": True}))
        bits = f32_bits(a / b)
        g.append(("(/ %d.0 %d)" % (a, b), Real(bits), {"computed": True}))
        for db in (1, -1):
            t = "%.9g" % bits_f32(bits + db)
            g.append((t, Real(f32_bits(float(t))), {"bits": sorted(lit_real(t)), "real_literal": True}))
    reals = ["0.0", "-0.0", "0.5", "1.5", "-2.5", "0.1", "16777216.0", "16777218.0", "1e10", "1e-7", "3.4e38", "1.0", "-1.0", "2.0",
             "0.3", "1e-45", "-0.5", "3.0", "7.0", "2147483648.0", "0.333333343"]
    for t in reals:
        bits = lit_real(t)
        b0 = f32_bits(float(t))
        g.append((t, Real(b0), {"bits": sorted(bits), "real_literal": True}))
    return g


def small_subgrid(g, n=30):
    """a sub-grid for 3-operand folds: keep variety of representations"""
    want = ["0", "1", "-1", "2", "-3", "7", "32767", "65536", "16777217", "2147483647", "-2147483648", "1/2", "-1/2", "3/4", "-7/3", "2/4",
            "32767/32766", "1/32767", "(/ 1 -2)", "(+ 1/2 1/2)", "(/ 6 4)", "(/ 7 -7)", "0.0", "-0.0", "0.5", "1.5", "-2.5", "0.1",
            "16777216.0", "1e10", "3.4e38", "1e-7"]
    out = [x for x in g if x[0] in want]
    return out[:max(n, len(out))]

"""C17 - running a program file: output, diagnostics and exit status.
Monitor: random displaying programs (optionally with one injected fault or a syntax error at a random form, optionally
importing a library file beside the program) are written with/without final newline and with LF/CRLF line ends and run as
`ruschm FILE` from an unrelated working directory (which holds a decoy library) with absolute and relative paths.  Observed:
stdout bytes, stderr, exit status.  Oracle: reference evaluator output up to the failing form, the same text evaluated
through the library interface (eval_file in the driver), one diagnostic line FILE[:LINE:COL] MESSAGE whose location lies in
the failing form, exit status 0 iff every form succeeded."""
import json, os, re, shutil, subprocess, tempfile
from concurrent.futures import ThreadPoolExecutor
from . import core, sxread, diff
from .c15 import form_spans, within
from .sx import show
from .ref_scheme import Machine, Strategy, SErr, OutOfModel

PID = "C17"
LEVEL = "exploration"
ANSI = re.compile(r"\x1b\[[0-9;]*m")
HEADER = "(import (scheme base) (scheme write))"

OFFENDER = {"nosuch": "nosuch", "(undefined-procedure 1)": "undefined-procedure", "(cond (#t (undefined-thing)))": "undefined-thing", "(list |my var| nosuch3)": "nosuch3",
            "(begin |multi\nline| (nosuch4))": "nosuch4"}
FAULTS = ["(list |my var| nosuch3)", "(begin |multi\nline| (nosuch4))", "(car '())", "(undefined-procedure 1)", "(vector-ref (vector 1 2) 5)", "(f0 1 2 3)", "(/ 10 0)", "(5 6)", "nosuch", "(+ 1 'a)", "(set! nosuch2 1)", "(vector-set! '#(1) 0 2)",
          "(let ((y 1)) (car y))", "(cond (#t (undefined-thing)))", "(map car '(1 2))", "(apply f0 '(1))"]
SYNTAX = ["(list 1 2))", "(display \"abc", "(list 1 #z)", "(display 2", "'(1 . 2 3)", "(display \"a\\qb\")"]


def gen_program(rng):
    """([form texts], index of the failing form or None, kind of failure)"""
    forms = [HEADER]
    use_lib = rng.random() < 0.3
    if use_lib:
        # one or two library files beside the program (the second one imports the first)
        forms[0] = rng.choice(["(import (scheme base) (scheme write) (mylib))", "(import (scheme base) (scheme write) (mylib) (mylib2))",
                               "(import (scheme base) (mylib2) (scheme write) (mylib))", "(import (mylib2) (scheme base) (mylib) (scheme write))"])
    forms += ["(define (f0) 7)", "(define counter 0)", "(define (show x) (display x) (newline))"]
    n = rng.randint(3, 12)
    vals = ["42", "-7", "#t", "#f", "'sym", "\"a string\"", "'(1 2 3)", "'(1 (2 \"x\") . 3)", "(list 1 'b \"c\")", "(vector 1 2)", "'()", "#\\a", "1/2", "(+ 1 2)", "(f0)", "counter",
            "(begin (set! counter (+ counter 1)) counter)", "(if (> counter 1) 'many 'few)", "(map (lambda (x) (* x x)) '(1 2 3))", "(let ((a 1) (b 2)) (list a b))"]
    # string literals that span lines (raw line feeds, blanks and tabs before and after them) and |identifiers| with blanks / line feeds
    vals += ["\"two  \n\tlines\"", "\"trailing blank \nnext\t\n  indented\"", "\"\n\"", "|my var|", "(+ |my var| 1)", "|multi\nline|", "(list |my var| |multi\nline|)"]
    forms += ["(define |my var| 3)", "(define |multi\nline| 4)"]
    # a string literal of several lines whose lines begin like other syntax: #! ; #| |# #; ( ) ' " and blanks
    def hostile_line():
        start = rng.choice(["#!", "#!/usr/bin/env ruschm", ";", ";;; note", "#|", "|#", "#;", "(", ")", "'", "\\\"", " ", "\t", "", "#\\a", "...", "|", "#t", "(define x"])
        return start + rng.choice(["", " rest of the line", "x", " ", "  (tail"])
    vals.append("\"%s\"" % "\n".join(hostile_line() for _ in range(rng.randint(2, 5))))
    vals.append("'(1 \"%s\" 2)" % "\n".join(hostile_line() for _ in range(rng.randint(2, 3))))
    # escape sequences (two source characters for one character of the string): what follows on the same line keeps its column
    vals += ["\"tab\\there \\\"quoted\\\" back\\\\slash\\n\"", "(list \"a\\nb\" \"\\\\\" 2)", "\"\\t\\t\\t\""]
    # text outside ASCII (2-, 3- and 4-byte characters) in strings and symbols-as-strings
    vals += ["\"col1\rcol2 (a bare carriage return)\"", "(list \"x\ry\" 1)", "\"caf\u00e9 ouvert \u03bb\"", "\"\u65e5\u672c\u8a9e (\U0001F600) \u00fc\"", "(list \"\u00e9\" \"\u20ac\" 1)"]
    if rng.random() < 0.08:
        # a file larger than any block size a reader is likely to use, filled with characters of 2-4 bytes (in a string that is defined, and displayed in part)
        pad = "".join(rng.choice(["\u00e9", "\u00e9", "\u20ac", "\U0001F600", "a", "\u03bb"]) for _ in range(rng.choice([40000, 90000])))
        forms.append("(define pad \"%s\")" % pad)
        vals.append("(if (string? pad) 'padded 'no)")
    if rng.random() < 0.08:
        # ONE display whose text has a line feed early and thousands of characters after it
        forms.append("(display (list \"totals per day:\n\" %s))" % " ".join(str(rng.randint(0, 999)) for _ in range(rng.choice([600, 3000]))))
    if use_lib:
        vals += ["lib-value", "(lib-add 1 2)"] + (["lib2-value", "(car lib2-value)"] if "mylib2" in forms[0] else [])
    for _ in range(n):
        c = rng.random()
        if c < 0.45:
            forms.append("(display %s)" % rng.choice(vals))
        elif c < 0.6:
            forms.append("(newline)")
        elif c < 0.75:
            forms.append("(show %s)" % rng.choice(vals))
        elif c < 0.85:
            forms.append("(define v%d %s)" % (rng.randint(1, 9), rng.choice(vals)))
        else:
            forms.append(rng.choice(vals))       # a bare expression: evaluated, not printed
    if rng.random() < 0.08:
        # a program that writes more than a pipe buffer holds (64 KiB) before it ends or fails: everything displayed must arrive, in order
        piece = rng.choice(["0123456789abcdefghijklmnopqrstuvwxyz-0123456789abcdefghijklmnopqrstuvwxyz", "line of output that is written many times over\n"])
        forms.append("(define (spill n) (if (> n 0) (begin (display \"%s\") (spill (- n 1))) 'done))" % piece.replace("\n", "\\n"))
        forms.append("(spill %d)" % rng.choice([1000, 1300]))
        forms.append("(display 'after-the-flood)")
    fail, kind = None, None
    c = rng.random()
    if c < 0.4:
        fail = rng.randint(6, len(forms)); kind = "fault"
        forms.insert(fail, rng.choice(FAULTS))
    elif c < 0.55:
        fail = rng.randint(6, len(forms)); kind = "syntax"
        forms.insert(fail, rng.choice(SYNTAX))
    if kind == "syntax" and forms[fail].count('"') % 2 == 1:
        # an unterminated string literal runs to the next double quote, wherever that is: it stays a syntax error only as the last thing in the file
        forms = forms[:fail + 1]
    elif fail is not None and rng.random() < 0.7:
        forms.insert(fail + 1, "(display \"never printed\")")
    return forms, fail, kind, use_lib


def expected_output(forms, fail, kind, use_lib):
    """stdout the program must produce (reference evaluator), up to the failing form"""
    m = Machine(Strategy(), stdlib=False)
    if use_lib:
        m.register_library(sxread.parse_one(LIB_SRC)); m.register_library(sxread.parse_one(LIB2_SRC))
    out = []
    for i, t in enumerate(forms):
        if i == fail and kind == "syntax":
            break
        try:
            f = sxread.parse_one(t)
        except sxread.ReadError:
            break
        m.out = []
        try:
            m.eval_toplevel(f)
            out.append("".join(m.out))
        except SErr:
            out.append("".join(m.out))
            if i != fail:
                raise OutOfModel("unexpected error in form %d" % i)
            break
    return "".join(out)


LIB_SRC = "(define-library (mylib) (import (scheme base)) (export lib-value lib-add) (begin (define lib-value 'from-program-dir) (define (lib-add a b) (+ a b 100))))"
LIB2_SRC = "(define-library (mylib2) (import (scheme base) (mylib)) (export lib2-value) (begin (define lib2-value (list 'second lib-value (lib-add 1 2)))))"
DECOY_SRC = "(define-library (mylib) (import (scheme base)) (export lib-value lib-add) (begin (define lib-value 'from-cwd-decoy) (define (lib-add a b) 0)))"


def render(rng, forms):
    eol = rng.choice(["\n", "\n", "\r\n"])
    final = rng.random() < 0.5
    sep = lambda: rng.choice([eol * rng.choice([1, 1, 2]) + rng.choice(["", "", "; comment (" + eol, "  "])] * 5 + [" ", "  "])       # sometimes two forms share a line
    text = ""
    for i, f in enumerate(forms):
        text += f
        if i + 1 < len(forms):
            text += sep()
    if final:
        text += eol
    return text, eol, final


def run(tier, seed):
    ctx = core.Ctx(PID, tier, seed, LEVEL)
    rng = ctx.rng
    n = 1500 if tier == "quick" else core.share(80000)
    ctx.rule = ("random displaying programs (header import, definitions, display/newline/show of integers, ratios, booleans, symbols, strings, characters, lists, vectors; a counter "
                "mutated by displayed expressions) with, at a random form, nothing / one run-time fault of 14 kinds / one syntax error of 6 kinds, optionally importing a library file "
                "beside the program; LF or CRLF, with or without final newline; run as `ruschm FILE` from an unrelated cwd holding a decoy library, by absolute or relative path; plus "
                "missing file, directory and non-UTF-8 file. distinct_nontrivial = distinct (failure kind, failing form text, line ends, final newline, path style, library) "
                "combinations whose stdout, stderr and exit status satisfied the oracle")
    ctx.assumptions = ["root ignores file permissions in this sandbox, so the mode-000 case is not generated", "ANSI colour codes are stripped from stderr before comparison",
                       "the diagnostic's location is judged with C15's span test"]
    cli = core.build_cli()
    root = tempfile.mkdtemp(prefix="c17-", dir=core.TMP)
    cwd = os.path.join(root, "elsewhere"); os.makedirs(cwd)
    open(os.path.join(cwd, "mylib.sld"), "w").write(DECOY_SRC)
    open(os.path.join(cwd, "mylib2.sld"), "w").write("(define-library (mylib2) (export lib2-value) (begin (define lib2-value 'second-from-cwd-decoy)))")
    cases = []
    while len(cases) < n:
        forms, fail, kind, use_lib = gen_program(rng)
        try:
            exp = expected_output(forms, fail, kind, use_lib)
        except (OutOfModel, RecursionError):
            ctx.count("generated_discarded"); continue
        text, eol, final = render(rng, forms)
        d = os.path.join(root, "p%d" % len(cases), "sub"); os.makedirs(d)
        path = os.path.join(d, "prog.scm")
        open(path, "w", newline="").write(text)
        if use_lib:
            open(os.path.join(d, "mylib.sld"), "w").write(LIB_SRC); open(os.path.join(d, "mylib2.sld"), "w").write(LIB2_SRC)
        rel = rng.random() < 0.5
        # a fifth of the programs are named by their bare file name, from their own directory (the directory part of the path is empty then)
        bare = rng.random() < 0.2
        cases.append({"forms": forms, "fail": fail, "kind": kind, "lib": use_lib, "text": text, "eol": eol, "final": final, "path": path, "rel": rel or bare, "exp": exp, "bare": bare,
                      "arg": "prog.scm" if bare else (os.path.relpath(path, cwd) if rel else path), "cli_cwd": d if bare else cwd})

    def run_cli(c):
        p = subprocess.run([cli, c["arg"]], cwd=c["cli_cwd"], stdout=subprocess.PIPE, stderr=subprocess.PIPE, timeout=900)
        return p.returncode, p.stdout, p.stderr
    with ThreadPoolExecutor(max_workers=core.NCPU) as ex:
        outs = list(ex.map(run_cli, cases))
    # the same text through the library interface (eval_file), from the same unrelated cwd
    jobs = [{"id": "f%d" % i, "interps": [{"stdlib": False, "natives": False}], "steps": [{"file": c["path"] if c["bare"] else c["arg"]}], "fuel": 200000} for i, c in enumerate(cases)]
    drecs = core.run_jobs(jobs, "dev", timeout=900 if tier == "quick" else 3000, tag="c17", env_extra={"__cwd": cwd})
    # ... and the same TEXT handed to eval as one string (programs that import the library beside the file need the program directory: skipped here)
    sjobs = [{"id": "s%d" % i, "interps": [{"stdlib": False, "natives": False}], "steps": [{"src": c["text"]}], "fuel": 200000} for i, c in enumerate(cases)]
    srecs = core.run_jobs(sjobs, "dev", timeout=900 if tier == "quick" else 3000, tag="c17s")
    for c, (rc, out, err), rec, srec in zip(cases, outs, drecs, srecs):
        ctx.evaluations += 1
        so = out.decode("utf8", "replace"); se = ANSI.sub("", err.decode("utf8", "replace"))
        key = "%s|%s|%r|%s|%s|%s" % (c["kind"], c["forms"][c["fail"]] if c["fail"] is not None else "-", c["eol"], c["final"], "bare" if c["bare"] else ("rel" if c["rel"] else "abs"), c["lib"])
        base = {"kind": "cli", "failure": c["kind"], "eol": repr(c["eol"]), "final_newline": c["final"], "relative_path": c["rel"], "bare_name": c["bare"], "library": c["lib"], "rc": rc}
        replay = {"text": c["text"], "arg": c["arg"], "lib": c["lib"]}
        if rc == 101 or rc < 0 or "panicked at" in se:
            ctx.violation(dict(base, what="ruschm FILE panicked", stderr=se[-300:], dedupe="panic"), replay); continue
        if so != c["exp"]:
            ctx.violation(dict(base, what="standard output differs from what the program displays up to the failing form", expected=c["exp"][-200:], observed=so[-200:],
                               dedupe="stdout|%s|%s" % (c["kind"], c["final"])), replay); continue
        step = rec["steps"][0] if rec and "steps" in rec else None
        if step is None:
            ctx.inconclusive_cases += 1; continue
        if step.get("out", "") != so:
            ctx.violation(dict(base, what="standard output differs from the same text evaluated through the library interface", library_interface=step.get("out", "")[-200:],
                               observed=so[-200:], dedupe="api-out"), replay); continue
        if c["fail"] is None:
            if rc != 0 or se.strip():
                ctx.violation(dict(base, what="a program whose forms all succeed must exit 0 silently", stderr=se[-200:], dedupe="ok-rc"), replay); continue
        else:
            lines = [l for l in se.split("\n") if l.strip()]
            if rc == 0:
                ctx.violation(dict(base, what="exit status 0 although a form failed", dedupe="fail-rc0|%s" % c["kind"]), replay); continue
            # one diagnostic: it starts with the file name; its message may quote source text that spans lines (an unterminated |identifier|), so further
            # lines are accepted when the whole text equals the library interface's message (compared below), but no second line names the file
            if not lines or not lines[0].startswith(c["arg"]) or sum(1 for l in lines if l.startswith(c["arg"] + ":")) > 1:
                ctx.violation(dict(base, what="expected exactly one diagnostic starting with the file name", stderr=se[-300:], dedupe="diag-shape"), replay); continue
            rest = se.strip("\n")[len(c["arg"]):]
            m = re.match(r"^:(\d+):(\d+)\s+(.*)$", rest, re.S)
            emsg = (step.get("err") or {}).get("msg")
            if "err" not in step:
                ctx.violation(dict(base, what="the library interface did not report the failure the CLI reported", api=step, dedupe="api-noerr"), replay); continue
            msg = m.group(3) if m else rest.strip()
            if msg.strip() != (emsg or "").strip():
                ctx.violation(dict(base, what="diagnostic message differs from the library interface's error message", cli=msg, api=emsg, dedupe="msg"), replay); continue
            if c["kind"] == "fault":
                if not m:
                    ctx.violation(dict(base, what="run-time fault reported without LINE:COL", stderr=lines[0][-200:], dedupe="noloc"), replay); continue
                spans = form_spans(c["text"])
                loc = (int(m.group(1)), int(m.group(2)))
                if c["fail"] < len(spans) and not within(loc, spans[c["fail"]][0], spans[c["fail"]][1]):
                    ctx.violation(dict(base, what="LINE:COL of the diagnostic lies outside the failing form", reported=list(loc), form_span=[list(spans[c["fail"]][0]), list(spans[c["fail"]][1])],
                                       dedupe="loc"), replay); continue
                off = OFFENDER.get(c["forms"][c["fail"]])
                if off and c["fail"] < len(spans):
                    toks = [t for t in spans[c["fail"]][2] if t.text == off]
                    if toks and not any(within(loc, t.start, t.end) for t in toks):
                        ctx.violation(dict(base, what="LINE:COL of an unbound-variable diagnostic is not at the offending identifier", reported=list(loc),
                                           token_at=[[list(t.start), list(t.end)] for t in toks], dedupe="loc-token"), replay); continue
        sstep = srec["steps"][0] if srec and "steps" in srec and not c["lib"] else None
        if sstep is not None and step is not None:
            # the text evaluated as a string: same output, same failure, same message and same LINE:COL as the program file
            a, b = step.get("err") or {}, sstep.get("err") or {}
            same = step.get("out", "") == sstep.get("out", "") and (a.get("kind"), a.get("msg")) == (b.get("kind"), b.get("msg")) and a.get("loc") == b.get("loc")
            if not same and a.get("kind") == b.get("kind") == "Syntax.UnexpectedEnd" and not c["text"].endswith(("\n", "\r")) and b.get("loc") and a.get("loc") == [b["loc"][0] + 1, 1]:
                # a file whose last line has no line terminator is read as if it had one: the end of input is then the start of the next line
                same = step.get("out", "") == sstep.get("out", "") and a.get("msg") == b.get("msg")
            if not same:
                ctx.violation(dict(base, what="the program file does not evaluate exactly as the same text given to eval as a string (output, error, message or location differ)",
                                   file={"out": step.get("out", "")[-120:], "err": a}, string={"out": sstep.get("out", "")[-120:], "err": b},
                                   dedupe="string-vs-file|%s|%s" % (c["kind"], a.get("loc") == b.get("loc"))), replay); continue
            ctx.count("agree_with_string_evaluation")
        ctx.count("runs_ok"); ctx.count("runs_ok_" + str(c["kind"]))
        ctx.nontriv(key)
    ctx.legs.append("programs")
    # ---------------- missing / directory / non-UTF-8
    # files that do not exist although a program with the same stem and .scm lies beside them: still a diagnostic and a non-zero status, nothing run
    open(os.path.join(root, "special-sib.scm") if False else os.path.join(root, "sibling.scm"), "w").write("(import (scheme base) (scheme write))\n(display 'ran-the-sibling)\n")
    special = {"missing.scm": None, "sibling.txt": None, "sibling.sld": None, "sibling": None, "sibling.v2": None, "sibling.scm.bak": None, "adir.scm": "dir", "nonutf8.scm": b"(import (scheme base) (scheme write))\n(display \"\xff\xfe\")\n", "empty.scm": b""}
    sd = os.path.join(root, "special"); os.makedirs(sd)
    shutil.copy(os.path.join(root, "sibling.scm"), os.path.join(sd, "sibling.scm"))
    for name, data in special.items():
        pth = os.path.join(sd, name)
        if data == "dir":
            os.makedirs(pth)
        elif data is not None:
            open(pth, "wb").write(data)
        p = subprocess.run([cli, pth], cwd=cwd, stdout=subprocess.PIPE, stderr=subprocess.PIPE, timeout=900)
        se = ANSI.sub("", p.stderr.decode("utf8", "replace"))
        ctx.evaluations += 1
        want_ok = name == "empty.scm"
        lines = [l for l in se.split("\n") if l.strip()]
        if p.returncode == 101 or p.returncode < 0 or "panicked" in se:
            ctx.violation({"kind": "cli", "what": "ruschm FILE panicked on an unreadable / missing file", "file": name, "stderr": se[-300:], "dedupe": "sp-panic|" + name}, {"file": name})
        elif want_ok and (p.returncode != 0 or lines):
            ctx.violation({"kind": "cli", "what": "an empty program must exit 0 silently", "file": name, "rc": p.returncode, "stderr": se[-200:], "dedupe": "sp-empty"}, {"file": name})
        elif not want_ok and (p.returncode == 0 or len(lines) != 1 or not lines[0].startswith(pth) or p.stdout):
            ctx.violation({"kind": "cli", "what": "a missing or unreadable file must give one diagnostic and a non-zero status", "file": name, "rc": p.returncode, "stderr": se[-300:],
                           "dedupe": "sp-diag|" + name}, {"file": name})
        else:
            ctx.count("special_files_ok"); ctx.nontriv("special|" + name)
    ctx.legs.append("special-files")
    ctx.sample({"program": cases[0]["text"][:600], "arg": cases[0]["arg"], "expected_stdout": cases[0]["exp"][:200]})
    shutil.rmtree(root, ignore_errors=True)
    return ctx.finish(min_evals=100, min_nontrivial=50)


def replay(path):
    data = json.load(open(path))
    r = data["replay"]
    d = tempfile.mkdtemp(prefix="c17r-", dir=core.TMP)
    p = os.path.join(d, "prog.scm")
    open(p, "w", newline="").write(r.get("text", ""))
    if r.get("lib"):
        open(os.path.join(d, "mylib.sld"), "w").write(LIB_SRC); open(os.path.join(d, "mylib2.sld"), "w").write(LIB2_SRC)
    q = subprocess.run([core.build_cli(), "prog.scm" if r.get("arg") == "prog.scm" else p], cwd=d, stdout=subprocess.PIPE, stderr=subprocess.PIPE)
    print(r.get("text")); print("rc", q.returncode); print("stdout", q.stdout); print("stderr", ANSI.sub("", q.stderr.decode("utf8", "replace")))
    shutil.rmtree(d, ignore_errors=True)
    return 0

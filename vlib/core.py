"""Plumbing shared by all checks: builds, sharded driver runs with crash containment and a watchdog,
known-findings matching, evidence and replay files, three-valued verdicts."""
import json, os, re, subprocess, sys, time, hashlib, random, shutil, signal

VERIF = os.path.dirname(os.path.dirname(os.path.abspath(__file__)))
REPO = os.environ.get("RUSCHM_REPO", "/repo")
CACHE = os.path.join(VERIF, ".cache")
TMP = os.path.join(CACHE, "tmp")
HARNESS = os.path.join(VERIF, "harness")
NCPU = min(16, os.cpu_count() or 4)

EXIT_HELD, EXIT_VIOLATION, EXIT_INCONCLUSIVE = 0, 1, 2


def _part():
    v = os.environ.get("VERIF_PART", "")
    try:
        i, n = v.split("/")
        return int(i), max(1, int(n))
    except Exception:
        return 0, 1


# A thorough run is split into PART_N independent parts run as parallel processes (check.py spawns them and merges their
# partial results): generation and judging are single-threaded python, so this is what makes depth affordable.
PART_I, PART_N = _part()


def share(total):
    """this part's share of a sampled workload of `total` cases"""
    return max(1, -(-int(total) // PART_N))


def mine(seq):
    """this part's share of an enumerated workload (the parts together cover it completely)"""
    seq = list(seq)
    return seq[PART_I::PART_N] if PART_N > 1 else seq


def part_file(pid, tier, i):
    d = os.path.join(CACHE, "parts")
    os.makedirs(d, exist_ok=True)
    return os.path.join(d, "%s-%s-%d.json" % (pid, tier, i))


class Inconclusive(Exception):
    pass


def log(*a):
    print(*a, file=sys.stderr, flush=True)


def ensure_dirs():
    for d in (CACHE, TMP, os.path.join(VERIF, "evidence"), os.path.join(VERIF, "replays")):
        os.makedirs(d, exist_ok=True)


# ------------------------------------------------------------------------------------------------
# builds
# ------------------------------------------------------------------------------------------------
_built = {}


def _cargo_env(extra=None):
    env = dict(os.environ)
    env["CARGO_NET_OFFLINE"] = "true"
    env.pop("RUSTFLAGS", None)
    if extra:
        env.update(extra)
    return env


def build_driver(profile="dev"):
    """Rebuild the driver (and with it /repo's library, hooks on) from the current working tree.
    profile: dev | release | relchk | asan"""
    ensure_dirs()
    if profile in _built:
        return _built[profile]
    t0 = time.time()
    if profile == "asan":
        tgt = os.path.join(CACHE, "harness-target-asan")
        cmd = ["cargo", "+nightly", "build", "--release", "--target", "x86_64-unknown-linux-gnu"]
        env = _cargo_env({"CARGO_TARGET_DIR": tgt,
                          "RUSTFLAGS": "--cfg ruschm_verif -Awarnings -Zsanitizer=address -Cforce-frame-pointers=yes"})
        binp = os.path.join(tgt, "x86_64-unknown-linux-gnu", "release", "rvdrive")
    else:
        tgt = os.path.join(CACHE, "harness-target")
        cmd = ["cargo", "build"]
        sub = "debug"
        if profile == "release":
            cmd.append("--release"); sub = "release"
        elif profile == "relchk":
            cmd += ["--profile", "relchk"]; sub = "relchk"
        env = _cargo_env({"CARGO_TARGET_DIR": tgt})
        binp = os.path.join(tgt, sub, "rvdrive")
    # keep the lock file in step with /repo's
    try:
        pass
    except Exception:
        pass
    r = subprocess.run(cmd, cwd=HARNESS, env=env, stdout=subprocess.PIPE, stderr=subprocess.STDOUT, text=True)
    if r.returncode != 0 or not os.path.exists(binp):
        raise Inconclusive("driver build failed (%s):\n%s" % (profile, r.stdout[-3000:]))
    log("[build] driver %s in %.1fs" % (profile, time.time() - t0))
    _built[profile] = binp
    return binp


def build_cli():
    """Build /repo's own `ruschm` binary (used as a subprocess by C15/C17/C18)."""
    ensure_dirs()
    if "cli" in _built:
        return _built["cli"]
    tgt = os.path.join(CACHE, "repo-target")
    t0 = time.time()
    env = _cargo_env({"CARGO_TARGET_DIR": tgt, "RUSTFLAGS": "--cfg ruschm_verif -Awarnings"})
    r = subprocess.run(["cargo", "build", "--bin", "ruschm"], cwd=REPO, env=env,
                       stdout=subprocess.PIPE, stderr=subprocess.STDOUT, text=True)
    binp = os.path.join(tgt, "debug", "ruschm")
    if r.returncode != 0 or not os.path.exists(binp):
        raise Inconclusive("cli build failed:\n%s" % r.stdout[-3000:])
    log("[build] ruschm binary in %.1fs" % (time.time() - t0))
    _built["cli"] = binp
    return binp


# ------------------------------------------------------------------------------------------------
# running jobs
# ------------------------------------------------------------------------------------------------
def _run_shard(binp, sub, lines, tag, timeout, env_extra=None):
    """Run one driver process over `lines` (already JSON-encoded). Returns (records, status) where records
    is a list parallel to lines (None for jobs not run), status a dict."""
    ensure_dirs()
    base = os.path.join(TMP, "%s-%d-%s" % (tag, os.getpid(), hashlib.md5(os.urandom(8)).hexdigest()[:8]))
    inp, outp, marker = base + ".in", base + ".out", base + ".mark"
    records = [None] * len(lines)
    start = 0
    aborted = []
    timed_out = False
    killed = 0
    deadline = time.time() + timeout
    # a driver process serves a bounded number of jobs: what the interpreters leak (Rc cycles, see KF-C02-cycle) stays in the process
    per_proc = int(os.environ.get("VERIF_JOBS_PER_PROCESS", "1500") or 1500)
    while start < len(lines):
        upto = min(len(lines), start + per_proc)
        with open(inp, "w") as f:
            for l in lines[start:upto]:
                f.write(l); f.write("\n")
        env = dict(os.environ); env["RVDRIVE_TMP"] = TMP
        cwd = None
        if env_extra:
            env.update(env_extra)
            cwd = env.pop("__cwd", None)
        try:
            os.remove(marker)
        except OSError:
            pass
        with open(inp) as fi, open(outp, "w") as fo:
            p = subprocess.Popen([binp, sub, "--marker", marker], stdin=fi, stdout=fo, stderr=subprocess.PIPE, env=env, cwd=cwd)
            try:
                _, err = p.communicate(timeout=max(1, deadline - time.time()))
            except subprocess.TimeoutExpired:
                p.kill(); _, err = p.communicate(); timed_out = True
        got = []
        with open(outp) as f:
            for l in f:
                l = l.strip()
                if l:
                    try:
                        got.append(json.loads(l))
                    except Exception:
                        break
        for i, r in enumerate(got):
            if start + i < len(records):
                records[start + i] = r
        done = start + len(got)
        if timed_out:
            break
        if p.returncode == -9:
            # SIGKILL comes from outside (the kernel's out-of-memory killer on a loaded machine), never from the interpreter: run the rest again;
            # a job that is killed three times is left without a record and makes the run inconclusive
            killed += 1
            if killed >= 3:
                return records, {"aborted": aborted, "timed_out": False, "killed": True}
            start = done
            time.sleep(5)
            continue
        if p.returncode != 0 and got and isinstance(got[-1], dict) and "hang" in got[-1]:
            # the driver's own per-step watchdog fired: the hung job has its record; go on with the rest
            start = done
            continue
        if p.returncode != 0 and done < upto:
            step = None
            try:
                step = open(marker).read()
            except OSError:
                pass
            records[done] = {"abort": {"returncode": p.returncode, "marker": step,
                                       "stderr": (err or b"").decode("utf8", "replace")[-600:]}}
            aborted.append(done)
            start = done + 1
            continue
        if done < upto:
            break       # the driver ended normally without answering every job: leave the rest without a record
        start = upto
    for f in (inp, outp, marker):
        try:
            os.remove(f)
        except OSError:
            pass
    return records, {"aborted": aborted, "timed_out": timed_out}


def run_driver(sub, items, profile="dev", shards=None, timeout=300, tag="run", env_extra=None):
    """Run `items` (JSON-able jobs / strings) through `rvdrive <sub>`, sharded over processes.
    Returns list of records parallel to items. Raises Inconclusive on watchdog expiry."""
    from concurrent.futures import ThreadPoolExecutor
    binp = build_driver(profile)
    # the wall-clock watchdog only ever yields "inconclusive": keep it generous, the machine may be loaded
    timeout = max(timeout, 1800)
    n = len(items)
    if n == 0:
        return []
    shards = shards or (NCPU if PART_N == 1 else max(3, 2 * NCPU // PART_N))
    shards = max(1, min(shards, n))
    enc = [json.dumps(x) for x in items]
    idx = [list(range(s, n, shards)) for s in range(shards)]
    out = [None] * n
    stats = {"aborted": 0, "timed_out": 0, "killed": 0}

    def work(s):
        recs, st = _run_shard(binp, sub, [enc[i] for i in idx[s]], "%s-%d" % (tag, s), timeout, env_extra)
        return s, recs, st
    with ThreadPoolExecutor(max_workers=shards) as ex:
        for s, recs, st in ex.map(work, range(shards)):
            for k, i in enumerate(idx[s]):
                out[i] = recs[k]
            stats["aborted"] += len(st["aborted"])
            stats["timed_out"] += 1 if st["timed_out"] else 0
            stats["killed"] += 1 if st.get("killed") else 0
    # aged jobs (see diff.age): the records of the failing forms evaluated before the judged workload are dropped here
    for item, rec in zip(items, out):
        if isinstance(item, dict) and item.get("_aged") and rec and "steps" in rec:
            rec["aged_steps"] = item["_aged"]
            rec["steps"] = rec["steps"][item["_aged"]:]
    if stats["killed"]:
        raise Inconclusive("%d driver process(es) were killed from outside three times (SIGKILL: out of memory on the machine?)" % stats["killed"])
    if stats["timed_out"]:
        missing = sum(1 for r in out if r is None)
        raise Inconclusive("watchdog: %d shard(s) exceeded %ds wall clock, %d job(s) without a record"
                           % (stats["timed_out"], timeout, missing))
    return out


def run_jobs(jobs, profile="dev", shards=None, timeout=300, tag="jobs", env_extra=None):
    return run_driver("jobs", jobs, profile, shards, timeout, tag, env_extra)


# ------------------------------------------------------------------------------------------------
# known findings
# ------------------------------------------------------------------------------------------------
def load_findings(pid):
    p = os.path.join(VERIF, "known_findings.json")
    if not os.path.exists(p):
        return []
    data = json.load(open(p))
    return [f for f in data.get("findings", []) if f.get("property") == pid and f.get("status") == "open"]


def match_finding(findings, desc):
    """desc: dict describing a violation. A finding matches when every key of its signature is present in desc
    and matches (strings: regex fullmatch; lists: desc value must be one of; others: equality)."""
    for f in findings:
        sig = f.get("signature", {})
        ok = True
        for k, want in sig.items():
            have = desc.get(k)
            if have is None:
                ok = False; break
            if isinstance(want, str):
                if not isinstance(have, str) or re.fullmatch(want, have, re.S) is None:
                    ok = False; break
            elif isinstance(want, list):
                if have not in want:
                    ok = False; break
            elif want != have:
                ok = False; break
        if ok:
            return f
    return None


# ------------------------------------------------------------------------------------------------
# the per-check context: collects observations, violations, evidence
# ------------------------------------------------------------------------------------------------
class Ctx:
    def __init__(self, pid, tier, seed, level="exploration"):
        self.pid, self.tier, self.seed, self.level = pid, tier, seed, level
        self.t0 = time.time()
        self.rng = random.Random(seed * 1000003 + int(pid[1:]) + 7919 * PART_I)
        self.findings = load_findings(pid)
        self.violations = []      # (desc, replay)
        self.known_hits = {}      # finding id -> count
        self.known_samples = {}
        self.evaluations = 0
        self.nontrivial = set()
        self.samples = []
        self.observed = {}
        self.rule = ""
        self.assumptions = []
        self.inconclusive_cases = 0
        self.exhaustive = False
        self.legs = []
        self.max_violations = 40
        self._vkeys = {}

    def count(self, key, n=1):
        self.observed[key] = self.observed.get(key, 0) + n

    def nontriv(self, key):
        self.nontrivial.add(key if isinstance(key, (str, int, tuple)) else json.dumps(key, sort_keys=True))

    def sample(self, s, cap=6):
        if len(self.samples) < cap:
            self.samples.append(s)

    def violation(self, desc, replay):
        """desc: dict with at least 'what'; replay: JSON-able witness."""
        f = match_finding(self.findings, desc)
        if f is not None:
            self.known_hits[f["id"]] = self.known_hits.get(f["id"], 0) + 1
            self.known_samples.setdefault(f["id"], desc)
            return False
        key = json.dumps([desc.get(k) for k in ("kind", "site", "msg", "what", "dedupe")], default=str)
        if key in self._vkeys:
            self._vkeys[key]["occurrences"] += 1
            return True
        desc = dict(desc); desc["occurrences"] = 1
        self._vkeys[key] = desc
        if len(self.violations) < self.max_violations:
            self.violations.append((desc, replay))
        else:
            self.count("violations_beyond_cap")
        return True

    def partial(self, min_evals, min_nontrivial):
        return {"evaluations": self.evaluations, "nontrivial": sorted(self.nontrivial), "samples": self.samples[:3], "observed": self.observed,
                "inconclusive_cases": self.inconclusive_cases, "known_hits": self.known_hits, "legs": self.legs, "exhaustive": self.exhaustive,
                "violations": [[d, r] for d, r in self.violations], "rule": self.rule, "assumptions": self.assumptions,
                "min_evals": min_evals, "min_nontrivial": min_nontrivial, "wall": time.time() - self.t0}

    def merge(self, part):
        self.evaluations += part["evaluations"]
        self.nontrivial.update(part["nontrivial"])
        self.samples += part["samples"]
        self.observed = merge_observed(self.observed, part["observed"])
        self.inconclusive_cases += part["inconclusive_cases"]
        for k, v in part["known_hits"].items():
            self.known_hits[k] = self.known_hits.get(k, 0) + v
        for l in part["legs"]:
            if l not in self.legs:
                self.legs.append(l)
        self.rule = self.rule or part["rule"]
        self.assumptions = self.assumptions or part["assumptions"]
        for d, r in part["violations"]:
            n = d.pop("occurrences", 1)
            if self.violation(d, r):
                key = json.dumps([d.get(k) for k in ("kind", "site", "msg", "what", "dedupe")], default=str)
                if key in self._vkeys:
                    self._vkeys[key]["occurrences"] += n - 1

    def finish(self, min_evals=1, min_nontrivial=2):
        if PART_N > 1:
            with open(part_file(self.pid, self.tier, PART_I), "w") as f:
                json.dump(self.partial(min_evals, min_nontrivial), f, default=str)
            print("[%s %s part %d/%d] evaluations=%d violations=%d wall=%.1fs" % (self.pid, self.tier, PART_I, PART_N, self.evaluations, len(self.violations), time.time() - self.t0))
            return EXIT_HELD
        wall = time.time() - self.t0
        ensure_dirs()
        status = "held"
        # known findings: print one line per listed finding that was observed
        for f in self.findings:
            if self.known_hits.get(f["id"]):
                print("KNOWN-FINDING: property=%s %s [%s, %d observation(s)]" % (self.pid, f["what"], f["id"], self.known_hits[f["id"]]))
        paths = []
        for i, (desc, replay) in enumerate(self.violations):
            path = os.path.join(VERIF, "replays", "%s-%s-s%d-%d.json" % (self.pid, self.tier, self.seed, i))
            with open(path, "w") as f:
                json.dump({"property": self.pid, "violation": desc, "replay": replay}, f, indent=1, default=str)
            paths.append(path)
        if self.violations:
            status = "violated"
        elif self.evaluations < min_evals or len(self.nontrivial) < min_nontrivial:
            status = "inconclusive"
        cov = {
            "evaluations": int(self.evaluations),
            "distinct_nontrivial": len(self.nontrivial),
            "rule": self.rule,
            "samples": self.samples[:8] if self.samples else ["<none>"],
            "observed": self.observed,
            "inconclusive_cases": self.inconclusive_cases,
            "known_findings_hit": self.known_hits,
            "legs": self.legs,
            "verdict": status,
        }
        if self.exhaustive:
            cov["exhaustive"] = True
        ev = {
            "property_id": self.pid, "tier": self.tier, "seed": int(self.seed), "level": self.level,
            "coverage": cov, "assumptions": self.assumptions, "wall_s": round(wall, 2),
            "violations": len(self.violations),
        }
        # runs against a deliberately broken tree (tools/try_mutant.sh) must not overwrite the evidence of the unchanged tree
        evdir = os.environ.get("VERIF_EVIDENCE_DIR") or os.path.join(VERIF, "evidence")
        os.makedirs(evdir, exist_ok=True)
        with open(os.path.join(evdir, "%s.json" % self.pid), "w") as f:
            json.dump(ev, f, indent=1, default=str)
        print("[%s %s seed=%d] %s: evaluations=%d distinct_nontrivial=%d inconclusive_cases=%d wall=%.1fs observed=%s"
              % (self.pid, self.tier, self.seed, status, self.evaluations, len(self.nontrivial), self.inconclusive_cases, wall,
                 json.dumps(self.observed, sort_keys=True)[:1500]))
        if status == "violated":
            for (desc, _), path in zip(self.violations, paths):
                print("  violation: %s" % json.dumps(desc, default=str)[:600])
                print("VIOLATION property=%s replay=%s" % (self.pid, path))
            return EXIT_VIOLATION
        if status == "inconclusive":
            print("INCONCLUSIVE property=%s too few observations (evaluations=%d, distinct_nontrivial=%d)"
                  % (self.pid, self.evaluations, len(self.nontrivial)))
            return EXIT_INCONCLUSIVE
        return EXIT_HELD


def merge_observed(a, b):
    out = dict(a)
    for k, v in b.items():
        if k not in out:
            out[k] = v
        elif isinstance(v, bool) or isinstance(out[k], bool):
            out[k] = out[k] and v
        elif isinstance(v, (int, float)) and isinstance(out[k], (int, float)):
            out[k] = out[k] + v
        elif isinstance(v, dict) and isinstance(out[k], dict):
            out[k] = merge_observed(out[k], v)
        elif isinstance(v, list) and isinstance(out[k], list):
            out[k] = (out[k] + [x for x in v if x not in out[k]])[:40]
    return out


def write_inconclusive(pid, tier, seed, level, why):
    """Evidence for a run that could not decide (build failure, watchdog...)."""
    ensure_dirs()
    print("INCONCLUSIVE property=%s %s" % (pid, why.replace("\n", " | ")[:800]))
    return EXIT_INCONCLUSIVE


# ------------------------------------------------------------------------------------------------
# record helpers
# ------------------------------------------------------------------------------------------------
def outcome(step):
    """Normalise a driver step record to ('ok', value) | ('err', kind) | ('panic', site) | ('abort', x) | ('fuel', None)"""
    if step is None:
        return ("missing", None)
    if "abort" in step:
        return ("abort", step["abort"])
    if step.get("fuel_exhausted"):
        return ("fuel", None)
    if "panic" in step:
        return ("panic", step["panic"])
    if "err" in step:
        return ("err", step["err"])
    if "ok" in step:
        return ("ok", step["ok"])
    return ("missing", None)


def msg_class(msg):
    """Coarse class of a panic message: digits and quoted payloads erased."""
    m = re.sub(r"\d+", "N", msg or "")
    m = re.sub(r"\"[^\"]*\"", "S", m)
    return m[:120]


def panic_desc(p, extra=None):
    d = {"kind": "panic", "site": fn_of(p.get("site", "")), "msg": msg_class(p.get("msg", "")), "loc": p.get("loc", "")}
    if extra:
        d.update(extra)
    return d


def fn_of(site):
    """strip generic arguments / hashes so a site names a function path"""
    s = re.sub(r"::h[0-9a-f]{16}$", "", site or "")
    s = re.sub(r"<[^<>]*>", "", s)
    s = re.sub(r"<[^<>]*>", "", s)
    s = re.sub(r"\{\{closure\}\}", "closure", s)
    return s

//! rvdrive - the only code of the verification framework that touches Ruschm.
//!
//! `rvdrive jobs [--out FILE] [--no-capture]` reads JSONL jobs on stdin and writes one JSONL record per job.
//! A job is a history of steps over one or more interpreter instances; every job runs on a fresh OS
//! thread (the macro table of Ruschm is a thread_local), every step under catch_unwind.
//! Other subcommands: `lex`, `expand`, `replcheck` (see the functions of the same name).
use ruschm::environment::Environment;
use ruschm::error::{ErrorData, SchemeError, ToLocated};
use ruschm::interpreter::error::LogicError;
use ruschm::interpreter::{Interpreter, LibraryFactory};
use ruschm::parser::error::SyntaxError;
use ruschm::parser::pair::GenericPair;
use ruschm::parser::*;
use ruschm::values::*;
use serde_json::{json, Map, Value as J};
use std::alloc::{GlobalAlloc, Layout, System};
use std::cell::{Cell, RefCell};
use std::collections::HashMap;
use std::io::{BufRead, Read, Seek, SeekFrom, Write};
use std::panic::{catch_unwind, AssertUnwindSafe};
use std::rc::Rc;
use std::sync::atomic::{AtomicBool, AtomicIsize, Ordering};
use std::sync::Mutex;

// ---------------------------------------------------------------------------------------------
// counting allocator: live bytes of the whole process (one job thread runs at a time)
// ---------------------------------------------------------------------------------------------
struct Counting;
static LIVE: AtomicIsize = AtomicIsize::new(0);
static COUNTING_PAUSED: AtomicBool = AtomicBool::new(false);
unsafe impl GlobalAlloc for Counting {
    unsafe fn alloc(&self, l: Layout) -> *mut u8 {
        if !COUNTING_PAUSED.load(Ordering::Relaxed) {
            LIVE.fetch_add(l.size() as isize, Ordering::Relaxed);
        }
        System.alloc(l)
    }
    unsafe fn dealloc(&self, p: *mut u8, l: Layout) {
        if !COUNTING_PAUSED.load(Ordering::Relaxed) {
            LIVE.fetch_sub(l.size() as isize, Ordering::Relaxed);
        }
        System.dealloc(p, l)
    }
    unsafe fn realloc(&self, p: *mut u8, l: Layout, n: usize) -> *mut u8 {
        if !COUNTING_PAUSED.load(Ordering::Relaxed) {
            LIVE.fetch_add(n as isize - l.size() as isize, Ordering::Relaxed);
        }
        System.realloc(p, l, n)
    }
}
#[global_allocator]
static A: Counting = Counting;

// ---------------------------------------------------------------------------------------------
// per-thread monitor state: tick trace, probe samples, panic record
// ---------------------------------------------------------------------------------------------
thread_local! {
    static TRACE: RefCell<Vec<J>> = RefCell::new(Vec::new());
    static PROBES: RefCell<Vec<(usize, isize)>> = RefCell::new(Vec::new());
    static PROBE_BASE: Cell<usize> = Cell::new(0);
    static PANIC: RefCell<Option<(String, String)>> = RefCell::new(None); // (message, file:line)
}
static STEP_STARTED: std::sync::atomic::AtomicU64 = std::sync::atomic::AtomicU64::new(0);
static CURRENT_STEP: std::sync::atomic::AtomicU64 = std::sync::atomic::AtomicU64::new(0);
fn now_ms() -> u64 {
    use std::time::{SystemTime, UNIX_EPOCH};
    SystemTime::now().duration_since(UNIX_EPOCH).map(|d| d.as_millis() as u64).unwrap_or(0)
}
static PANIC_SITES: Mutex<Option<HashMap<String, String>>> = Mutex::new(None);

type V = Value<f32>;
type It = Interpreter<'static, f32>;

const MAX_DEPTH: usize = 80;

thread_local! {
    static SER_NODES: Cell<usize> = Cell::new(0);
}
const MAX_NODES: usize = 200_000;

fn ser_value(v: &V, depth: usize, alias: &mut Vec<usize>) -> J {
    if depth == 0 {
        SER_NODES.with(|n| n.set(0));
    }
    let nodes = SER_NODES.with(|n| {
        n.set(n.get() + 1);
        n.get()
    });
    if depth > MAX_DEPTH || nodes > MAX_NODES {
        return json!({"deep": true});
    }
    match v {
        Value::Number(Number::Integer(i)) => json!({ "i": i }),
        Value::Number(Number::Rational(a, b)) => json!({"q": [a, b]}),
        Value::Number(Number::Real(r)) => json!({"r": r.to_bits(), "rs": format!("{:?}", r)}),
        Value::Boolean(b) => json!({ "b": b }),
        Value::Character(c) => json!({"c": c.to_string()}),
        Value::String(s) => json!({ "s": s }),
        Value::Symbol(s) => json!({ "y": s }),
        Value::Procedure(Procedure::User(p, _)) => json!({"p": "user", "formals": p.0.to_string()}),
        Value::Procedure(Procedure::Builtin(b)) => json!({"p": "builtin", "name": b.name}),
        Value::Vector(r) => {
            let (ptr, m) = match r {
                ValueReference::Immutable(rc) => (Rc::as_ptr(rc) as *const u8 as usize, false),
                ValueReference::Mutable(rc) => (Rc::as_ptr(rc) as *const u8 as usize, true),
            };
            let id = match alias.iter().position(|p| *p == ptr) {
                Some(i) => i,
                None => {
                    alias.push(ptr);
                    alias.len() - 1
                }
            };
            let items: Vec<J> = match r {
                ValueReference::Immutable(rc) => {
                    rc.iter().map(|x| ser_value(x, depth + 1, alias)).collect()
                }
                ValueReference::Mutable(rc) => match rc.try_borrow() {
                    Ok(b) => b.iter().map(|x| ser_value(x, depth + 1, alias)).collect(),
                    Err(_) => return json!({"v": [], "m": m, "a": id, "borrowed": true}),
                },
            };
            json!({"v": items, "m": m, "a": id})
        }
        Value::Pair(p) => {
            let mut items = Vec::new();
            let mut cur: &GenericPair<V> = p.as_ref();
            let mut tail = J::Null;
            let mut n = 0usize;
            loop {
                match cur {
                    GenericPair::Empty => break,
                    GenericPair::Some(car, cdr) => {
                        items.push(ser_value(car, depth + 1, alias));
                        n += 1;
                        if n > 100_000 {
                            tail = json!({"deep": true});
                            break;
                        }
                        match cdr {
                            Value::Pair(next) => cur = next.as_ref(),
                            other => {
                                tail = ser_value(other, depth + 1, alias);
                                break;
                            }
                        }
                    }
                }
            }
            json!({"l": items, "t": tail})
        }
        Value::Transformer(_) => json!({"tr": true}),
        Value::Void => json!({"void": true}),
    }
}

fn variant_name(dbg: String) -> String {
    dbg.chars()
        .take_while(|c| c.is_alphanumeric() || *c == '_')
        .collect()
}

fn ser_error(e: &SchemeError) -> J {
    let (kind, payload): (String, J) = match &e.data {
        ErrorData::Syntax(s) => (format!("Syntax.{}", variant_name(format!("{:?}", s))), syntax_payload(s)),
        ErrorData::Logic(l) => match l {
            LogicError::MetaCircularSyntax(s) => (
                format!("Logic.MetaCircularSyntax.{}", variant_name(format!("{:?}", s))),
                syntax_payload(s),
            ),
            LogicError::UnboundedSymbol(n) => ("Logic.UnboundedSymbol".into(), json!([n])),
            LogicError::TypeMisMatch(v, t) => ("Logic.TypeMisMatch".into(), json!([v, format!("{:?}", t)])),
            LogicError::ArgumentMissMatch(f, a) => {
                ("Logic.ArgumentMissMatch".into(), json!([f.to_string(), a]))
            }
            LogicError::LibraryNotFound(n) => ("Logic.LibraryNotFound".into(), json!([n.to_string()])),
            LogicError::LibraryImportCyclic(n) => {
                ("Logic.LibraryImportCyclic".into(), json!([n.to_string()]))
            }
            LogicError::Extension(m) => ("Logic.Extension".into(), json!([m])),
            other => (format!("Logic.{}", variant_name(format!("{:?}", other))), J::Null),
        },
        ErrorData::IO(m) => ("IO".into(), json!([m])),
    };
    json!({"kind": kind, "payload": payload, "loc": e.location.map(|l| vec![l[0], l[1]]), "msg": format!("{}", e)})
}

fn syntax_payload(s: &SyntaxError) -> J {
    match s {
        SyntaxError::Extension(m) => json!([m]),
        SyntaxError::MacroMissMatch(k, d) => json!([k, d.to_string()]),
        SyntaxError::UnexpectedToken(t) => json!([format!("{:?}", t)]),
        _ => J::Null,
    }
}

// ---------------------------------------------------------------------------------------------
// native monitor procedures, registered through the public API
// ---------------------------------------------------------------------------------------------
fn native_tick(args: ArgVec<f32>) -> Result<V, SchemeError> {
    let mut it = args.into_iter();
    let k = it.next().unwrap();
    let v = it.next().unwrap();
    let mut alias = Vec::new();
    let kj = ser_value(&k, 0, &mut alias);
    TRACE.with(|t| t.borrow_mut().push(kj));
    Ok(v)
}

#[inline(never)]
fn native_probe(args: ArgVec<f32>) -> Result<V, SchemeError> {
    let marker = 0u8;
    let here = &marker as *const u8 as usize;
    let live = LIVE.load(Ordering::Relaxed);
    COUNTING_PAUSED.store(true, Ordering::Relaxed);
    PROBES.with(|p| {
        let base = PROBE_BASE.with(|b| b.get());
        p.borrow_mut().push((base.wrapping_sub(here), live));
    });
    COUNTING_PAUSED.store(false, Ordering::Relaxed);
    Ok(args.into_iter().next().unwrap())
}

fn native_ident(args: ArgVec<f32>) -> Result<V, SchemeError> {
    Ok(args.into_iter().next().unwrap())
}

fn formals(fixed: &[&str]) -> ParameterFormals {
    ParameterFormals::new_non_located(fixed.iter().map(|s| s.to_string()), None)
}

fn define_natives(env: &Rc<Environment<f32>>, ident_name: Option<&str>) {
    env.define(
        "tick".into(),
        Value::Procedure(Procedure::new_builtin_pure("tick".into(), formals(&["k", "v"]), native_tick)),
    );
    env.define(
        "probe".into(),
        Value::Procedure(Procedure::new_builtin_pure("probe".into(), formals(&["v"]), native_probe)),
    );
    if let Some(n) = ident_name {
        env.define(
            n.to_string(),
            Value::Procedure(Procedure::new_builtin_pure(n.to_string(), formals(&["v"]), native_ident)),
        );
    }
}

// ---------------------------------------------------------------------------------------------
// building interpreters and API terms from JSON
// ---------------------------------------------------------------------------------------------
fn lib_name(j: &J) -> LibraryName {
    LibraryName(
        j.as_array()
            .expect("library name array")
            .iter()
            .map(|e| match e {
                J::String(s) => LibraryNameElement::Identifier(s.clone()),
                J::Number(n) => LibraryNameElement::Integer(n.as_u64().unwrap() as u32),
                _ => panic!("bad library name element"),
            })
            .collect(),
    )
}

fn import_set(j: &J) -> ImportSet {
    let o = j.as_object().expect("import set object");
    let strs = |a: &J| -> Vec<String> {
        a.as_array().unwrap().iter().map(|s| s.as_str().unwrap().to_string()).collect()
    };
    if let Some(n) = o.get("lib") {
        ImportSetBody::Direct(lib_name(n).into()).no_locate()
    } else if let Some(a) = o.get("only") {
        ImportSetBody::Only(Box::new(import_set(&a[0])), strs(&a[1])).no_locate()
    } else if let Some(a) = o.get("except") {
        ImportSetBody::Except(Box::new(import_set(&a[0])), strs(&a[1])).no_locate()
    } else if let Some(a) = o.get("prefix") {
        ImportSetBody::Prefix(Box::new(import_set(&a[0])), a[1].as_str().unwrap().to_string()).no_locate()
    } else if let Some(a) = o.get("rename") {
        ImportSetBody::Rename(
            Box::new(import_set(&a[0])),
            a[1].as_array()
                .unwrap()
                .iter()
                .map(|p| (p[0].as_str().unwrap().to_string(), p[1].as_str().unwrap().to_string()))
                .collect(),
        )
        .no_locate()
    } else {
        panic!("bad import set {}", j)
    }
}

/// native library: exports name -> integer value
fn native_factory(name: LibraryName, exports: Vec<(String, i32)>) -> LibraryFactory<'static, f32> {
    LibraryFactory::Native(
        name,
        Box::new(move || {
            exports
                .iter()
                .map(|(n, v)| (n.clone(), Value::Number(Number::Integer(*v))))
                .collect()
        }),
    )
}

fn register_lib(it: &mut It, l: &J) -> Result<(), SchemeError> {
    let name = lib_name(&l["name"]);
    if let Some(src) = l.get("src").and_then(|s| s.as_str()) {
        let f = LibraryFactory::from_char_stream(&name, src.chars())?;
        it.register_library_factory(f);
    } else if let Some(ex) = l.get("native") {
        let exports = ex
            .as_array()
            .unwrap()
            .iter()
            .map(|p| (p[0].as_str().unwrap().to_string(), p[1].as_i64().unwrap() as i32))
            .collect();
        it.register_library_factory(native_factory(name, exports));
    }
    Ok(())
}

fn make_interp(spec: &J) -> Result<It, SchemeError> {
    let stdlib = spec.get("stdlib").and_then(|b| b.as_bool()).unwrap_or(true);
    let mut it: It = if stdlib { Interpreter::new_with_stdlib() } else { Interpreter::default() };
    if let Some(d) = spec.get("progdir").and_then(|s| s.as_str()) {
        it.program_directory = Some(std::path::PathBuf::from(d));
    }
    if let Some(libs) = spec.get("libs").and_then(|l| l.as_array()) {
        for l in libs {
            register_lib(&mut it, l)?;
        }
    }
    if spec.get("natives").and_then(|b| b.as_bool()).unwrap_or(true) {
        define_natives(&it.env, spec.get("ident").and_then(|s| s.as_str()));
    }
    Ok(it)
}

fn env_dump(env: &Rc<Environment<f32>>, with_values: bool) -> J {
    let mut m = Map::new();
    let defs = env.iter_local_definitions();
    // RefVal derefs to the boxed iterator; collect while the borrow is alive
    let mut names: Vec<(String, J)> = Vec::new();
    let mut defs = defs;
    for (k, v) in &mut *defs {
        let mut alias = Vec::new();
        names.push((k.clone(), if with_values { ser_value(v, 0, &mut alias) } else { J::Null }));
    }
    names.sort_by(|a, b| a.0.cmp(&b.0));
    for (k, v) in names {
        m.insert(k, v);
    }
    J::Object(m)
}

fn syntax_table_dump() -> J {
    let p = Parser::from_lexer(Lexer::from_char_stream("".chars()));
    let mut out: Vec<(String, String)> = Vec::new();
    {
        let mut defs = p.syntax_env.iter_local_definitions();
        for (k, v) in &mut *defs {
            // a cheap fingerprint of the transformer: its Display text length + first chars
            let s = format!("{}", v);
            let mut h: u64 = 1469598103934665603;
            for b in s.bytes() {
                h ^= b as u64;
                h = h.wrapping_mul(1099511628211);
            }
            out.push((k.clone(), format!("{:016x}", h)));
        }
    }
    out.sort();
    json!(out)
}

// ---------------------------------------------------------------------------------------------
// stdout capture (display / newline print to the process's stdout)
// ---------------------------------------------------------------------------------------------
struct Capture {
    file: Option<std::fs::File>,
    pos: u64,
}
impl Capture {
    fn take(&mut self) -> String {
        let _ = std::io::stdout().flush();
        match &mut self.file {
            None => String::new(),
            Some(f) => {
                let end = f.seek(SeekFrom::End(0)).unwrap_or(self.pos);
                if end <= self.pos {
                    return String::new();
                }
                let mut buf = vec![0u8; (end - self.pos) as usize];
                let _ = f.seek(SeekFrom::Start(self.pos));
                let _ = f.read_exact(&mut buf);
                self.pos = end;
                if self.pos > (1 << 26) {
                    let _ = f.set_len(0);
                    let _ = f.seek(SeekFrom::Start(0));
                    self.pos = 0;
                }
                String::from_utf8_lossy(&buf).into_owned()
            }
        }
    }
}

// ---------------------------------------------------------------------------------------------
// one job
// ---------------------------------------------------------------------------------------------
fn panic_record() -> J {
    let p = PANIC.with(|p| p.borrow_mut().take());
    match p {
        Some((msg, loc)) => {
            let site = PANIC_SITES
                .lock()
                .unwrap()
                .as_ref()
                .and_then(|m| m.get(&loc).cloned())
                .unwrap_or_default();
            json!({"msg": msg, "loc": loc, "site": site})
        }
        None => json!({"msg": "?", "loc": "?", "site": "?"}),
    }
}

fn run_job(job: &J, cap: &Mutex<Capture>, progress: &mut dyn FnMut(&str)) -> J {
    let id = job.get("id").cloned().unwrap_or(J::Null);
    let fuel = job.get("fuel").and_then(|f| f.as_u64()).unwrap_or(200_000);
    let stack_limit = job.get("stack_limit").and_then(|f| f.as_u64()).unwrap_or(256 << 20) as usize;
    let mut interps: Vec<Option<It>> = Vec::new();
    let mut setup_errors: Vec<J> = Vec::new();
    if let Some(specs) = job.get("interps").and_then(|i| i.as_array()) {
        for spec in specs {
            match catch_unwind(AssertUnwindSafe(|| make_interp(spec))) {
                Ok(Ok(it)) => interps.push(Some(it)),
                Ok(Err(e)) => {
                    setup_errors.push(json!({"err": ser_error(&e)}));
                    interps.push(None)
                }
                Err(_) => {
                    setup_errors.push(json!({"panic": panic_record()}));
                    interps.push(None)
                }
            }
        }
    }
    let marker = 0u8;
    PROBE_BASE.with(|b| b.set(&marker as *const u8 as usize));
    let mut out_steps: Vec<J> = Vec::new();
    let empty = Vec::new();
    let steps = job.get("steps").and_then(|s| s.as_array()).unwrap_or(&empty);
    for (si, step) in steps.iter().enumerate() {
        progress(&format!("{} {}", id, si));
        TRACE.with(|t| t.borrow_mut().clear());
        PROBES.with(|p| p.borrow_mut().clear());
        let mut rec = Map::new();
        let iti = step.get("it").and_then(|i| i.as_u64()).unwrap_or(0) as usize;
        ruschm::verif::set_fuel(Some(fuel), stack_limit);
        if let Some(spec) = step.get("new") {
            match catch_unwind(AssertUnwindSafe(|| make_interp(spec))) {
                Ok(Ok(it)) => {
                    interps.push(Some(it));
                    rec.insert("ok".into(), json!({"new": interps.len() - 1}));
                }
                Ok(Err(e)) => {
                    interps.push(None);
                    rec.insert("err".into(), ser_error(&e));
                }
                Err(_) => {
                    interps.push(None);
                    rec.insert("panic".into(), panic_record());
                }
            }
        } else if step.get("syntax_table").is_some() {
            match catch_unwind(syntax_table_dump) {
                Ok(j) => {
                    rec.insert("ok".into(), j);
                }
                Err(_) => {
                    rec.insert("panic".into(), panic_record());
                }
            }
        } else {
            let it = match interps.get_mut(iti).and_then(|o| o.as_mut()) {
                Some(it) => it,
                None => {
                    rec.insert("skipped".into(), json!("no such interpreter"));
                    out_steps.push(J::Object(rec));
                    continue;
                }
            };
            let r: std::thread::Result<Result<J, SchemeError>> = if let Some(src) = step.get("src").and_then(|s| s.as_str()) {
                let want_disp = step.get("disp").and_then(|b| b.as_bool()).unwrap_or(false);
                catch_unwind(AssertUnwindSafe(|| {
                    it.eval(src.chars()).map(|ov| match ov {
                        None => json!({"none": true}),
                        Some(v) => {
                            let mut alias = Vec::new();
                            let mut j = ser_value(&v, 0, &mut alias);
                            if want_disp {
                                // Display recursion is unbounded for self-containing vectors: only when asked
                                j.as_object_mut().unwrap().insert("disp".into(), json!(format!("{}", v)));
                            }
                            j
                        }
                    })
                }))
            } else if let Some(path) = step.get("file").and_then(|s| s.as_str()) {
                catch_unwind(AssertUnwindSafe(|| {
                    it.eval_file(std::path::PathBuf::from(path)).map(|ov| match ov {
                        None => json!({"none": true}),
                        Some(v) => {
                            let mut alias = Vec::new();
                            ser_value(&v, 0, &mut alias)
                        }
                    })
                }))
            } else if let Some(term) = step.get("import") {
                // eval_import through the API into a fresh environment (or the root one)
                let fresh = step.get("fresh_env").and_then(|b| b.as_bool()).unwrap_or(true);
                catch_unwind(AssertUnwindSafe(|| {
                    let sets: Vec<ImportSet> = match term {
                        J::Array(a) => a.iter().map(import_set).collect(),
                        one => vec![import_set(one)],
                    };
                    let env = if fresh { Rc::new(Environment::new()) } else { it.env.clone() };
                    if step.get("via_ast").and_then(|b| b.as_bool()).unwrap_or(false) {
                        // the same declaration as a statement handed to eval_ast together with the environment it is meant for
                        let statement: Statement = ImportDeclaration(sets).no_locate().into();
                        it.eval_ast(&statement, env.clone())?;
                    } else {
                        it.eval_import(&ImportDeclaration(sets), env.clone())?;
                    }
                    Ok(env_dump(&env, true))
                }))
            } else if let Some(l) = step.get("register") {
                catch_unwind(AssertUnwindSafe(|| register_lib(it, l).map(|_| json!({"none": true}))))
            } else if let Some(l) = step.get("append_loader") {
                // the other way an embedder supplies libraries: a LibraryLoader appended to the interpreter's own
                catch_unwind(AssertUnwindSafe(|| {
                    let name = lib_name(&l["name"]);
                    let src = l.get("src").and_then(|s| s.as_str()).unwrap_or("");
                    let f = LibraryFactory::from_char_stream(&name, src.chars())?;
                    let loader = ruschm::interpreter::LibraryLoader::default().with_lib_factory(f);
                    it.append_lib_loader(loader);
                    Ok(json!({"none": true}))
                }))
            } else if step.get("env_names").is_some() {
                let with_values = step.get("env_names").and_then(|b| b.as_bool()).unwrap_or(false);
                catch_unwind(AssertUnwindSafe(|| Ok(env_dump(&it.env, with_values))))
            } else {
                Ok(Ok(json!({"unknown_step": true})))
            };
            match r {
                Ok(Ok(j)) => {
                    rec.insert("ok".into(), j);
                }
                Ok(Err(e)) => {
                    rec.insert("err".into(), ser_error(&e));
                }
                Err(_) => {
                    rec.insert("panic".into(), panic_record());
                }
            }
            let inprog: Vec<String> = match catch_unwind(AssertUnwindSafe(|| {
                it.verif_in_progress().iter().map(|n| n.to_string()).collect::<Vec<_>>()
            })) {
                Ok(v) => v,
                Err(_) => vec!["<panic>".into()],
            };
            if !inprog.is_empty() {
                rec.insert("inprog".into(), json!(inprog));
            }
        }
        if ruschm::verif::exhausted() {
            rec.insert("fuel_exhausted".into(), json!(true));
        }
        ruschm::verif::set_fuel(None, 0);
        let tr = TRACE.with(|t| std::mem::take(&mut *t.borrow_mut()));
        if !tr.is_empty() {
            rec.insert("trace".into(), J::Array(tr));
        }
        let pr = PROBES.with(|p| std::mem::take(&mut *p.borrow_mut()));
        if !pr.is_empty() {
            // compact: [stack, heap] pairs; for long series only first 4, then min/max summary + every k-th
            let n = pr.len();
            let keep_all = n <= 64;
            let mut samples = Vec::new();
            let stride = if keep_all { 1 } else { (n / 32).max(1) };
            for (i, (s, h)) in pr.iter().enumerate() {
                if keep_all || i < 8 || i % stride == 0 || i + 1 == n {
                    samples.push(json!([i, s, h]));
                }
            }
            // drift statistics over i >= i0 (i0 = 3 or n/2 for heap slope)
            let i0 = 3.min(n - 1);
            let (s0, _h0) = pr[i0];
            let smin = pr[i0..].iter().map(|x| x.0).min().unwrap();
            let smax = pr[i0..].iter().map(|x| x.0).max().unwrap();
            let half = n / 2;
            let hmid = pr[half].1;
            let hend = pr[n - 1].1;
            let hmax = pr[half..].iter().map(|x| x.1).max().unwrap();
            let hmin = pr[half..].iter().map(|x| x.1).min().unwrap();
            rec.insert(
                "probes".into(),
                json!({"n": n, "samples": samples, "stack_at_i0": s0, "stack_min": smin, "stack_max": smax,
                       "heap_mid": hmid, "heap_end": hend, "heap_min2": hmin, "heap_max2": hmax, "half": half}),
            );
        }
        let out = cap.lock().unwrap().take();
        if !out.is_empty() {
            rec.insert("out".into(), json!(out));
        }
        out_steps.push(J::Object(rec));
    }
    // drop interpreters under catch_unwind as well
    let _ = catch_unwind(AssertUnwindSafe(move || drop(interps)));
    json!({"id": id, "setup": setup_errors, "steps": out_steps})
}

fn install_panic_hook() {
    std::panic::set_hook(Box::new(|info| {
        let msg = if let Some(s) = info.payload().downcast_ref::<&str>() {
            s.to_string()
        } else if let Some(s) = info.payload().downcast_ref::<String>() {
            s.clone()
        } else {
            "<non-string panic>".to_string()
        };
        let loc = info.location().map(|l| format!("{}:{}", l.file(), l.line())).unwrap_or_default();
        let need = {
            let mut g = PANIC_SITES.lock().unwrap();
            let m = g.get_or_insert_with(HashMap::new);
            !m.contains_key(&loc)
        };
        if need {
            let site = if cfg!(miri) {
                String::new()
            } else {
                let bt = std::backtrace::Backtrace::force_capture().to_string();
                // first frame inside the ruschm crate
                let mut site = String::new();
                for line in bt.lines() {
                    let l = line.trim();
                    if let Some(p) = l.find(": ") {
                        let sym = &l[p + 2..];
                        if (sym.starts_with("ruschm::") || sym.starts_with("<ruschm::")) && !sym.contains("verif") {
                            site = sym.to_string();
                            break;
                        }
                    }
                }
                site
            };
            PANIC_SITES.lock().unwrap().get_or_insert_with(HashMap::new).insert(loc.clone(), site);
        }
        PANIC.with(|p| *p.borrow_mut() = Some((msg, loc)));
    }));
}

fn open_out(args: &[String]) -> Box<dyn Write + Send> {
    if let Some(i) = args.iter().position(|a| a == "--out") {
        Box::new(std::fs::File::create(&args[i + 1]).expect("create --out file"))
    } else {
        // results go to the original stdout; fd 1 is then redirected to the capture file
        let fd = unsafe { libc::dup(1) };
        use std::os::unix::io::FromRawFd;
        Box::new(unsafe { std::fs::File::from_raw_fd(fd) })
    }
}

fn setup_capture(args: &[String]) -> Capture {
    if args.iter().any(|a| a == "--no-capture") || cfg!(miri) {
        return Capture { file: None, pos: 0 };
    }
    let dir = std::env::var("RVDRIVE_TMP").unwrap_or_else(|_| "/tmp".to_string());
    let path = format!("{}/rvdrive-cap-{}", dir, std::process::id());
    let f = std::fs::OpenOptions::new()
        .read(true)
        .write(true)
        .create(true)
        .truncate(true)
        .open(&path)
        .expect("capture file");
    let _ = std::fs::remove_file(&path);
    use std::os::unix::io::AsRawFd;
    unsafe {
        libc::dup2(f.as_raw_fd(), 1);
    }
    Capture { file: Some(f), pos: 0 }
}

fn cmd_jobs(args: &[String]) {
    let mut out = open_out(args);
    let cap = std::sync::Arc::new(Mutex::new(setup_capture(args)));
    install_panic_hook();
    let stack: usize = std::env::var("RVDRIVE_STACK").ok().and_then(|s| s.parse().ok()).unwrap_or(1usize << 30);
    let stdin = std::io::stdin();
    let marker_path = args.iter().position(|a| a == "--marker").map(|i| args[i + 1].clone());
    let step_timeout_ms: u64 = std::env::var("RVDRIVE_STEP_TIMEOUT_MS").ok().and_then(|s| s.parse().ok()).unwrap_or(30_000);
    // address-space limit: runaway allocation ends in an allocation-failure abort of this process only
    let mem: u64 = std::env::var("RVDRIVE_MEM").ok().and_then(|s| s.parse().ok()).unwrap_or(8u64 << 30);
    if mem > 0 && !cfg!(miri) {
        let lim = libc::rlimit { rlim_cur: mem, rlim_max: mem };
        unsafe {
            libc::setrlimit(libc::RLIMIT_AS, &lim);
        }
    }
    for line in stdin.lock().lines() {
        let line = match line {
            Ok(l) => l,
            Err(_) => break,
        };
        if line.trim().is_empty() {
            continue;
        }
        let job: J = match serde_json::from_str(&line) {
            Ok(j) => j,
            Err(e) => {
                let _ = writeln!(out, "{}", json!({"id": null, "driver_error": format!("bad job json: {}", e)}));
                continue;
            }
        };
        let cap2 = cap.clone();
        let mp = marker_path.clone();
        let job_id = job.get("id").cloned().unwrap_or(J::Null);
        let (tx, rx) = std::sync::mpsc::channel();
        STEP_STARTED.store(now_ms(), Ordering::Relaxed);
        let spawned = std::thread::Builder::new()
            .stack_size(stack)
            .spawn(move || {
                let mut progress = |s: &str| {
                    STEP_STARTED.store(now_ms(), Ordering::Relaxed);
                    CURRENT_STEP.store(s.rsplit(' ').next().and_then(|x| x.parse().ok()).unwrap_or(0), Ordering::Relaxed);
                    if let Some(p) = &mp {
                        let _ = std::fs::write(p, s);
                    }
                };
                let r = run_job(&job, &cap2, &mut progress);
                let _ = tx.send(r);
            });
        let handle = match spawned {
            Ok(h) => h,
            Err(e) => {
                let _ = writeln!(out, "{}", json!({"id": job_id, "driver_error": format!("spawn failed: {}", e)}));
                continue;
            }
        };
        // wall-clock watchdog per step: a step that does not return is reported as a hang (never a violation by
        // itself - the orchestrator counts it as inconclusive) and the process exits, since a thread cannot be killed
        let rec = loop {
            match rx.recv_timeout(std::time::Duration::from_millis(100)) {
                Ok(r) => {
                    let _ = handle.join();
                    break r;
                }
                Err(std::sync::mpsc::RecvTimeoutError::Timeout) => {
                    let started = STEP_STARTED.load(Ordering::Relaxed);
                    if now_ms().saturating_sub(started) > step_timeout_ms {
                        let _ = writeln!(
                            out,
                            "{}",
                            json!({"id": job_id, "hang": {"step": CURRENT_STEP.load(Ordering::Relaxed), "timeout_ms": step_timeout_ms}})
                        );
                        let _ = out.flush();
                        std::process::exit(3);
                    }
                }
                Err(std::sync::mpsc::RecvTimeoutError::Disconnected) => {
                    let _ = handle.join();
                    break json!({"id": job_id, "driver_error": "job thread panicked outside a step", "panic": panic_record()});
                }
            }
        };
        let _ = writeln!(out, "{}", rec);
        let _ = out.flush();
    }
}

// ---------------------------------------------------------------------------------------------
// lex: token streams of many strings.  stdin: JSONL strings; out: JSONL {"toks":[...]} | {"err":..}
// ---------------------------------------------------------------------------------------------
fn ser_token(t: &TokenData) -> J {
    match t {
        TokenData::Identifier(s) => json!({"k": "id", "v": s}),
        TokenData::Primitive(Primitive::String(s)) => json!({"k": "str", "v": s}),
        TokenData::Primitive(Primitive::Character(c)) => json!({"k": "char", "v": c.to_string()}),
        TokenData::Primitive(Primitive::Boolean(b)) => json!({"k": "bool", "v": b}),
        TokenData::Primitive(Primitive::Integer(i)) => json!({"k": "int", "v": i}),
        TokenData::Primitive(Primitive::Rational(a, b)) => json!({"k": "rat", "v": [a, b]}),
        TokenData::Primitive(Primitive::Real(s)) => json!({"k": "real", "v": s}),
        TokenData::LeftParen => json!({"k": "("}),
        TokenData::RightParen => json!({"k": ")"}),
        TokenData::VecConsIntro => json!({"k": "#("}),
        TokenData::ByteVecConsIntro => json!({"k": "#u8("}),
        TokenData::Quote => json!({"k": "'"}),
        TokenData::Quasiquote => json!({"k": "`"}),
        TokenData::Unquote => json!({"k": ","}),
        TokenData::UnquoteSplicing => json!({"k": ",@"}),
        TokenData::Period => json!({"k": "."}),
    }
}

fn cmd_lex(args: &[String]) {
    let mut out = open_out(args);
    install_panic_hook();
    let stdin = std::io::stdin();
    for line in stdin.lock().lines() {
        let line = line.unwrap();
        let text: String = match serde_json::from_str(&line) {
            Ok(J::String(s)) => s,
            _ => continue,
        };
        let r = catch_unwind(|| {
            let lexer = Lexer::from_char_stream(text.chars());
            let mut toks = Vec::new();
            for t in lexer {
                match t {
                    Ok(tok) => {
                        let mut j = ser_token(&tok.data);
                        j.as_object_mut()
                            .unwrap()
                            .insert("loc".into(), json!(tok.location.map(|l| vec![l[0], l[1]])));
                        toks.push(j)
                    }
                    Err(e) => return json!({"toks": toks, "err": ser_error(&e)}),
                }
                if toks.len() > 10_000 {
                    return json!({"toks": toks, "runaway": true});
                }
            }
            json!({ "toks": toks })
        });
        let rec = match r {
            Ok(j) => j,
            Err(_) => json!({"panic": panic_record()}),
        };
        let _ = writeln!(out, "{}", rec);
    }
}

// ---------------------------------------------------------------------------------------------
// expand: apply a parsed syntax-rules transformer to a use datum through Transformer::transform.
// stdin JSONL {"def": "(define-syntax m ...)", "uses": ["(m 1 2)", ...]}
// ---------------------------------------------------------------------------------------------
fn ser_datum(d: &Datum) -> J {
    match &d.data {
        DatumBody::Primitive(Primitive::Integer(i)) => json!({ "i": i }),
        DatumBody::Primitive(Primitive::Boolean(b)) => json!({ "b": b }),
        DatumBody::Primitive(Primitive::String(s)) => json!({ "s": s }),
        DatumBody::Primitive(Primitive::Character(c)) => json!({"c": c.to_string()}),
        DatumBody::Primitive(Primitive::Rational(a, b)) => json!({"q": [a, b]}),
        DatumBody::Primitive(Primitive::Real(s)) => json!({ "rl": s }),
        DatumBody::Symbol(s) => json!({ "y": s }),
        DatumBody::Vector(v) => json!({"v": v.iter().map(ser_datum).collect::<Vec<_>>()}),
        DatumBody::Pair(p) => {
            let mut items = Vec::new();
            let mut cur: &GenericPair<Datum> = p.as_ref();
            let mut tail = J::Null;
            loop {
                match cur {
                    GenericPair::Empty => break,
                    GenericPair::Some(car, cdr) => {
                        items.push(ser_datum(car));
                        match &cdr.data {
                            DatumBody::Pair(next) => cur = next.as_ref(),
                            _ => {
                                tail = ser_datum(cdr);
                                break;
                            }
                        }
                    }
                }
            }
            json!({"l": items, "t": tail})
        }
    }
}

fn parse_one_datum(text: &str) -> Result<Datum, SchemeError> {
    // read `(quote TEXT)` with the public parser and take the quoted datum
    let src = format!("(quote {}\n)", text);
    let mut parser = Parser::from_lexer(Lexer::from_char_stream(src.chars()));
    match parser.next() {
        Some(Ok(Statement::Expression(e))) => match e.data {
            ExpressionBody::Quote(d) => Ok(*d),
            _ => Err(ErrorData::Syntax(SyntaxError::Extension("verif: not a quote".into())).no_locate()),
        },
        Some(Err(e)) => Err(e),
        _ => Err(ErrorData::Syntax(SyntaxError::Extension("verif: no datum".into())).no_locate()),
    }
}

fn expand_job(job: &J) -> J {
    let def = job["def"].as_str().unwrap_or("");
    let mut parser = Parser::from_lexer(Lexer::from_char_stream(def.chars()));
    let (kw, tr) = match catch_unwind(AssertUnwindSafe(|| parser.next())) {
        Ok(Some(Ok(Statement::SyntaxDefinition(sd)))) => {
            // the transformer is taken from the parser's own syntax table (where parsing the definition has put it), not rebuilt here:
            // the driver then does not depend on the shape of the Transformer type
            let SyntaxDefBody(name, _t) = sd.data;
            let found = parser.syntax_env.get(&name).map(|t| t.clone());
            match found {
                Some(t) => (name, t),
                None => return json!({"def_err": {"kind": "verif.TransformerNotRegistered"}}),
            }
        }
        Ok(Some(Err(e))) => return json!({"def_err": ser_error(&e)}),
        Err(_) => return json!({"def_panic": panic_record()}),
        _ => return json!({"def_err": {"kind": "verif.NotASyntaxDefinition"}}),
    };
    let mut results = Vec::new();
    for u in job["uses"].as_array().unwrap_or(&Vec::new()) {
        let text = u.as_str().unwrap_or("");
        let r = catch_unwind(AssertUnwindSafe(|| -> Result<J, SchemeError> {
            let d = parse_one_datum(text)?;
            let location = d.location;
            match d.data {
                DatumBody::Pair(mut pair) => {
                    let _first = pair.pop_proper()?;
                    let remained = DatumBody::Pair(pair).locate(location);
                    ruschm::verif::set_fuel(Some(10_000), 1 << 28);
                    let out = tr.transform(&kw, remained);
                    ruschm::verif::set_fuel(None, 0);
                    let out = out?;
                    Ok(json!({"datum": ser_datum(&out), "text": out.to_string()}))
                }
                _ => Ok(json!({"not_a_list": true})),
            }
        }));
        results.push(match r {
            Ok(Ok(j)) => json!({ "ok": j }),
            Ok(Err(e)) => json!({"err": ser_error(&e)}),
            Err(_) => json!({"panic": panic_record()}),
        });
    }
    json!({"id": job.get("id").cloned().unwrap_or(J::Null), "results": results})
}

fn cmd_expand(args: &[String]) {
    let mut out = open_out(args);
    install_panic_hook();
    let stdin = std::io::stdin();
    for line in stdin.lock().lines() {
        let line = line.unwrap();
        let job: J = match serde_json::from_str(&line) {
            Ok(j) => j,
            Err(_) => continue,
        };
        // fresh thread: the define-syntax lands in the thread-local macro table
        let rec = std::thread::Builder::new()
            .stack_size(256 << 20)
            .spawn(move || expand_job(&job))
            .unwrap()
            .join()
            .unwrap_or_else(|_| json!({"driver_error": "expand thread panicked"}));
        let _ = writeln!(out, "{}", rec);
    }
}

// ---------------------------------------------------------------------------------------------
// replcheck: the REPL's submission test (hook H2) on many strings. stdin JSONL strings -> JSONL bool
// ---------------------------------------------------------------------------------------------
fn cmd_replcheck(args: &[String]) {
    let mut out = open_out(args);
    install_panic_hook();
    let stdin = std::io::stdin();
    let mut w = std::io::BufWriter::new(&mut out);
    for line in stdin.lock().lines() {
        let line = line.unwrap();
        let text: String = match serde_json::from_str(&line) {
            Ok(J::String(s)) => s,
            _ => continue,
        };
        let r = catch_unwind(|| ruschm::repl::verif_check_bracket_closed(&text));
        let _ = match r {
            Ok(b) => writeln!(w, "{}", if b { "true" } else { "false" }),
            Err(_) => writeln!(w, "\"panic\""),
        };
    }
}

fn main() {
    let args: Vec<String> = std::env::args().collect();
    match args.get(1).map(|s| s.as_str()) {
        Some("jobs") => cmd_jobs(&args),
        Some("lex") => cmd_lex(&args),
        Some("expand") => cmd_expand(&args),
        Some("replcheck") => cmd_replcheck(&args),
        _ => {
            eprintln!("usage: rvdrive jobs|lex|expand|replcheck [--out FILE] [--no-capture] [--marker FILE]");
            std::process::exit(2);
        }
    }
}

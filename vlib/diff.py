"""Differential runner: histories of top-level forms on the real interpreter vs the reference model, form by form
(value, tick trace, error kind), under one consistent evaluation strategy."""
import json
from . import core
from .sx import show, skeleton
from .ref_scheme import Machine, SErr, OutOfModel, all_strategies, match_value, match_error, VOID, display_text, VecObj, Pair, Strategy as _Strategy
from .sx import Sym


def freeze(v, memo=None):
    """snapshot of a model value at this point of the history (vectors are mutable objects): same idents, copied contents"""
    if isinstance(v, VecObj):
        memo = memo if memo is not None else {}
        if id(v) in memo:
            return memo[id(v)]
        c = VecObj([], v.mutable, v.ident)
        memo[id(v)] = c
        c.items = [freeze(x, memo) for x in v.items]
        return c
    if isinstance(v, Pair):
        memo = memo if memo is not None else {}
        items, t = [], v
        while isinstance(t, Pair):
            items.append(freeze(t.car, memo)); t = t.cdr
        r = freeze(t, memo)
        for x in reversed(items):
            r = Pair(x, r)
        return r
    return v


def model_run(forms, strategy, machine=None, with_out=False, libs=None, stdlib=True):
    """[(kind, value_or_errkind, trace, out)] per form; raises OutOfModel"""
    m = machine or Machine(strategy, stdlib=stdlib)
    for l in (libs or []):
        m.register_library(l)
    res = []
    for f in forms:
        m.trace = []; m.out = []
        s0 = m.steps
        try:
            v = m.eval_toplevel(f)
            res.append(("ok", freeze(v), [freeze(t) for t in m.trace], "".join(m.out), m.steps - s0))
        except SErr as e:
            res.append(("err", e.kind, list(m.trace), "".join(m.out), m.steps - s0))
        except RecursionError:
            raise OutOfModel("python recursion")
    return res


def step_matches(exp, step, check_alias=False, check_out=False, fuel=None):
    """None if the driver's step record agrees with the model's expectation, else a short reason"""
    kind, val = core.outcome(step)
    ek, ev, etrace, eout = exp[:4]
    if kind in ("missing", "abort"):
        return "no record"
    if kind == "fuel":
        # the interpreter used up its budget of procedure applications.  That is a disagreement when the reference finishes the form in
        # far fewer evaluation steps (every application is at least one of them; library procedures written in Scheme cost a bounded
        # factor more), and undecided otherwise
        need = exp[4] if len(exp) > 4 else None
        if fuel and need is not None and need * 100 + 1000 < fuel:
            return "did not terminate within %d procedure applications (the reference needs %d evaluation steps for this form)" % (fuel, need)
        return "fuel"
    if kind == "panic":
        return "panic"
    tr = step.get("trace", [])
    if len(tr) != len(etrace) or not all(match_value(a, b) for a, b in zip(etrace, tr)):
        return "tick trace differs (expected %s, observed %s)" % ([display_text(t) if not isinstance(t, int) else t for t in etrace],
                                                                  [t.get("i", t) for t in tr])
    if check_out and (step.get("out", "") != eout):
        return "output differs (expected %r, observed %r)" % (eout, step.get("out", ""))
    if ek == "ok":
        if kind != "ok":
            return "expected a value, observed error %s" % (val.get("kind") if isinstance(val, dict) else val)
        alias = {} if check_alias else None
        if not match_value(ev, val, alias):
            return "value differs (expected %s)" % safe_text(ev)
        return None
    if kind != "err":
        return "expected an error of kind %s, observed a value" % ev
    if not match_error(ev, val):
        return "expected an error of kind %s, observed %s" % (ev, val.get("kind"))
    return None


def safe_text(v):
    try:
        return display_text(v) if v is not None else "<definition>"
    except Exception:
        return repr(v)


def compare_history(forms, steps, check_alias=False, check_out=False, strategies=None, libs=None, stdlib=True, fuel=200000):
    """returns ('ok', strategy) | ('oom', None) | ('fuel', None) | ('mismatch', detail)"""
    first = None
    for st in (strategies or all_strategies()):
        try:
            exp = model_run(forms, st, libs=libs, stdlib=stdlib)
        except OutOfModel:
            return ("oom", None)
        bad = None
        for i, (e, s) in enumerate(zip(exp, steps)):
            why = step_matches(e, s, check_alias, check_out, fuel)
            if why == "fuel":
                return ("fuel", None)
            if why is not None:
                bad = {"form_index": i, "form": show(forms[i]), "why": why, "observed": trim(s), "strategy": repr(st)}
                break
        if bad is None:
            return ("ok", st)
        if first is None:
            first = bad
    return ("mismatch", first)


def trim(step):
    s = json.dumps(step)
    return json.loads(s) if len(s) < 1500 else {"truncated": s[:1500]}


def job_for(forms, jid="p", fuel=200000, interp=None):
    return {"id": jid, "interps": [interp or {"stdlib": True}], "steps": [{"src": show(f)} for f in forms], "fuel": fuel}


def age(job, rng, n):
    """evaluate n failing forms (gen_text.aging) on the job's interpreter before its own steps; core.run_driver drops their records again"""
    from . import gen_text
    job["steps"] = [{"src": t} for t in gen_text.aging(rng, n)] + job["steps"]
    job["_aged"] = job.get("_aged", 0) + n
    return job


def file_transport(ctx, programs, leg, what):
    """the same programs reach the evaluator as a program FILE (eval_file) instead of one string per form: every expression form becomes
    (define zresK FORM); the tick trace of the whole file and the values of all zresK must be what form-by-form evaluation gives"""
    import os, tempfile, shutil
    r = ctx.rng
    d = tempfile.mkdtemp(prefix="c01f-", dir=core.TMP)
    jobs, meta = [], []
    for k, forms in enumerate(programs):
        try:
            exp = model_run(forms, _Strategy())
        except OutOfModel:
            continue
        lines, names, trace = ["(import (scheme base))"], [], []
        for i, (f, e) in enumerate(zip(forms, exp)):
            trace += e[2]
            if isinstance(f, list) and f and f[0] == Sym("define"):
                lines.append(show(f))
            else:
                lines.append("(define zres%d %s)" % (i, show(f))); names.append((i, e[1]))
        path = os.path.join(d, "p%d.scm" % k)
        open(path, "w").write(r.choice(["\n", "\n\n", "\r\n"]).join(lines) + r.choice(["", "\n"]))
        jobs.append({"id": "f%d" % k, "interps": [{"stdlib": False, "natives": True}], "steps": [{"file": path}, {"src": "(list %s)" % " ".join("zres%d" % i for i, _ in names)}], "fuel": 400000})
        meta.append((forms, names, trace))
    recs = core.run_jobs(jobs, leg, timeout=3000, tag="c01f")
    from .ref_scheme import lst
    for (forms, names, trace), rec in zip(meta, recs):
        ctx.evaluations += 1
        if rec is None or "steps" not in rec:
            ctx.inconclusive_cases += 1; continue
        st = rec["steps"]
        k0, v0 = core.outcome(st[0])
        tr = st[0].get("trace", [])
        why = None
        if k0 == "fuel":
            ctx.inconclusive_cases += 1; continue
        if k0 != "ok":
            why = "the program file failed: %s" % (v0.get("msg") if isinstance(v0, dict) else k0)
        elif len(tr) != len(trace) or not all(match_value(a, b) for a, b in zip(trace, tr)):
            why = "tick trace of the file differs from form-by-form evaluation (expected %d ticks, observed %d)" % (len(trace), len(tr))
        else:
            k1, v1 = core.outcome(st[1])
            if k1 != "ok" or not match_value(lst([e for _, e in names]), v1):
                why = "values of the file's expression forms differ from form-by-form evaluation"
        if why:
            ctx.violation({"what": "%s evaluated as a program file disagrees with the reference semantics" % what, "kind": "model", "why": why, "leg": leg, "dedupe": "file|" + why[:30]},
                          {"forms": [show(f) for f in forms], "leg": leg})
        else:
            ctx.count("programs_agree_as_files")
    shutil.rmtree(d, ignore_errors=True)



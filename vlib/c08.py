"""C08 - run-time errors are detected, classified, and leave the interpreter usable.
Fault enumeration: 8 fault kinds x 5 calling contexts, each injected at a random position and depth of an otherwise valid
program, surrounded by effects (set!, vector-set!, define, ticks) before and after the fault and followed by forms that
read the effects back.  Oracle: reference evaluator (error kind, never a value; exactly the effects before the fault)."""
import json
from fractions import Fraction
from . import core, diff, gen_core
from .sx import S, Sym, Vec, Dot, show, q, skeleton
from .ref_scheme import OutOfModel, Strategy

PID = "C08"
LEVEL = "fault_enumeration"

PRELUDE = [
    "(define kept #f)", "(define keptv (vector 0))",
    "(define g1 0)", "(define vv (vector 0 0 0))", "(define lit '#(1 2 3))",
    "(define (f2 a b) (+ a b))", "(define (fr a . r) (cons a r))", "(define (f0) 7)",
    "(define (id x) x)",
]

FAULTS = ["non-procedure", "arity", "unbound-read", "unbound-set", "wrong-type", "index", "literal-mutation", "div0"]
CONTEXTS = ["direct", "tail", "apply", "library", "derived"]


# signature table for the systematic wrong-type faults: N number, Z exact integer, I index, P pair, L list, V mutable vector, F procedure, A anything; "T*" = zero or more T
SIGNATURES = ([(n, ["P"]) for n in ("car", "cdr", "caar", "cadr", "cdar", "cddr", "caddr", "cdddr", "last-pair")]
              + [(n, ["N*"]) for n in ("+", "*", "-", "/", "=", "<", ">", "<=", ">=", "max", "min")]
              + [("abs", ["N"]), ("floor-quotient", ["Z", "Z"]), ("floor-remainder", ["Z", "Z"]),
                 ("vector-length", ["V"]), ("vector-ref", ["V", "I"]), ("vector-set!", ["V", "I", "A"]), ("make-vector", ["I", "A"]),
                 ("apply", ["F", "L"]), ("apply", ["F", "A", "L"])])
# only natively implemented builtins (and the c[ad]r compositions, which end in one): what map, append or list-tail do with a non-list is "an error" in
# R7RS without a demanded detection, and C08 speaks of builtins
FIXED_UNTYPED = [("cons", ["A", "A"]), ("eqv?", ["A", "A"]), ("eq?", ["A", "A"]), ("equal?", ["A", "A"]), ("not", ["A"]), ("null?", ["A"]), ("pair?", ["A"]), ("list?", ["A"]),
                 ("boolean?", ["A"]), ("symbol?", ["A"]), ("procedure?", ["A"]), ("vector?", ["A"]), ("number?", ["A"]), ("list-tail", ["L", "I"]), ("list-ref", ["L", "I"]),
                 ("memq", ["A", "L"]), ("memv", ["A", "L"]), ("fold-left", ["F", "A", "L"])]
VALID = {"N": [1, 2, 7, Fraction(1, 2)], "Z": [7, 3, 2], "I": [0, 1], "P": [q([[1, 2], 3, 4, 5])], "L": [q([1])], "V": [S("vv")], "F": [S("id")], "A": [0, q(S("k"))]}
WRONG = {"num": [5], "sym": [q(S("a"))], "str": ["s"], "bool": [True, False], "nil": [q([])], "pair": [q([1, 2])], "vec": [[S("vector"), 1, 2]], "proc": [S("car")]}
COMPATIBLE = {"N": {"num"}, "Z": {"num"}, "I": {"num"}, "P": {"pair"}, "L": {"nil", "pair"}, "V": {"vec"}, "F": {"proc"}}


def parse(t):
    from . import sxread
    return sxread.parse_one(t)


class FG:
    def __init__(self, rng):
        self.rng = rng
        self.k = 0

    def tick(self, e):
        self.k += 1
        return [S("tick"), self.k, e]

    def fault_call(self, fault):
        """(operator, [operands]) such that applying operator to the operands is the fault; operands may tick.
        For faults that are not calls returns (None, expr)."""
        r = self.rng
        t = self.tick
        if fault == "non-procedure":
            op = r.choice([5, q(S("a")), "s", [S("vector"), 1], True, q([1, 2])])
            return op, [t(r.randint(0, 9)) for _ in range(r.randint(0, 2))]
        if fault == "arity" and r.random() < 0.45:
            return self.systematic_arity()
        if fault == "arity":
            return r.choice([
                ([S("lambda"), [S("a")], S("a")], [t(1), 2]), ([S("lambda"), [], 1], [t(1)]), ([S("lambda"), [S("a"), S("b")], S("b")], [1, t(2), 3]),
                (S("apply"), []), (S("f2"), [t(1)]), (S("f2"), [t(1), 2, t(3)]), (S("f2"), []), (S("fr"), []), (S("f0"), [t(1)]),
                (S("car"), []), (S("car"), [q([1]), t(2)]), (S("cons"), [t(1)]), (S("vector-ref"), [S("vv")]), (S("not"), []),
                ([S("lambda"), [S("a"), S("b")], S("a")], [t(1)]), ([S("lambda"), [S("a"), Sym("."), S("r")], S("a")], []) if False else (S("fr"), []),
                (S("vector-set!"), [S("vv"), 0]), (S("eqv?"), [t(1)]), (S("list-tail"), [q([1, 2])]),
            ])
        if fault == "wrong-type" and r.random() < 0.5:
            return self.systematic_wrong_type()
        if fault == "wrong-type":
            return r.choice([
                (S("car"), [t(5)]), (S("cdr"), [q(S("a"))]), (S("+"), [1, t(q(S("a")))]), (S("+"), [t("s"), 1]), (S("-"), ["s"]),
                (S("*"), [2, t(q([1]))]), (S("vector-ref"), [q([1, 2]), 0]), (S("vector-ref"), [S("vv"), t(q(S("a")))]),
                (S("vector-ref"), [S("vv"), Fraction(1, 2)]), (S("vector-set!"), [5, 0, 1]), (S("vector-length"), [t(5)]), (S("<"), [1, t(q(S("a")))]),
                (S("<"), [2, 1, q(S("a"))]), (S("="), [t("x"), 1]), (S("abs"), [q(S("a"))]), (S("max"), [1, t(True)]),
                (S("make-vector"), [q(S("a")), 0]), (S("apply"), [S("+"), t(5)]), (S("cadr"), [t(q([1]))]), (S("list-tail"), [q([1, 2]), t(5)]),
                (S("floor-quotient"), [t("s"), 2]), (S("caar"), [q([1])]),
            ])
        if fault == "index":
            n = 3
            return r.choice([(S("vector-ref"), [S("vv"), t(k)]) for k in (-1, n, n + 1)] + [(S("vector-set!"), [S("vv"), t(k), 9]) for k in (-1, n, n + 2)]
                            + [(S("vector-ref"), [S("lit"), 3]), (S("vector-ref"), [[S("vector")], t(0)]),
                               # a store into a freshly made EMPTY vector: an index fault (the vector is a mutable one), not a literal-mutation fault
                               (S("vector-set!"), [[S("vector")], t(0), 9]), (S("vector-set!"), [[S("make-vector"), 0, 1], 0, t(9)])])
        if fault == "literal-mutation":
            return r.choice([(S("vector-set!"), [S("lit"), t(0), 9]), (S("vector-set!"), [q(Vec([1, 2])), 1, t(9)]), (S("vector-set!"), [Vec([1]), 0, 0])])
        if fault == "div0":
            return r.choice([(S("/"), [t(1), 0]), (S("/"), [Fraction(1, 2), t(0)]), (S("/"), [0]), (S("/"), [6, 3, t(0)]), (S("/"), [t(1), 2, 0]),
                             (S("floor-quotient"), [t(7), 0]), (S("floor-remainder"), [Fraction(1, 2), 0]), (S("floor-quotient"), [Fraction(3, 2), t(0)]),
                             (S("/"), [0, 0]), (S("floor-remainder"), [t(5), [S("-"), 2, 2]])])
        if fault == "unbound-read":
            if r.random() < 0.35:
                # a name whose own internal definition comes later in the same body (and that has no outer binding): not bound yet when it is read
                return None, [[S("lambda"), [], [S("define"), S("early"), r.choice([S("later-zz"), [S("list"), t(1), S("later-zz")], [S("+"), S("later-zz"), 1]])],
                               [S("define"), S("later-zz"), t(2)], [S("list"), S("early"), S("later-zz")]]]
            return None, S("no-such-variable")
        if fault == "unbound-set":
            if r.random() < 0.35:
                return None, [[S("lambda"), [], [S("define"), S("early"), [S("begin"), [S("set!"), S("later-zz"), t(1)], 0]], [S("define"), S("later-zz"), t(2)], [S("list"), S("early"), S("later-zz")]]]
            return None, [S("set!"), S("no-such-variable"), t(1)]
        raise ValueError(fault)

    def systematic_arity(self):
        """a builtin of fixed arity from the signature tables with one well-typed argument too many, or one too few"""
        r = self.rng
        name, sig = r.choice([x for x in SIGNATURES + FIXED_UNTYPED if not (x[1] and x[1][-1].endswith("*"))])
        sig = list(sig)
        if sig and r.random() < 0.4:
            sig = sig[:-1]
        else:
            sig = sig + [r.choice(["A", "N", "L"])]
        args = [self.tick(r.choice(VALID[ty])) if r.random() < 0.3 else r.choice(VALID[ty]) for ty in sig]
        return S(name), args

    def systematic_wrong_type(self):
        """a builtin from the signature table, at one of its arities, with one typed position holding a value of another type"""
        r = self.rng
        name, sig = r.choice(SIGNATURES)
        if sig and sig[-1].endswith("*"):
            base, rep = sig[:-1], sig[-1][:-1]
            sig = base + [rep] * r.randint(0 if base else 1, 3)
        typed = [i for i, t in enumerate(sig) if t != "A"]
        bad = r.choice(typed)
        args = []
        for i, t in enumerate(sig):
            if i == bad:
                v = r.choice([x for k, xs in WRONG.items() if k not in COMPATIBLE[t] for x in xs])
            else:
                v = r.choice(VALID[t])
            args.append(self.tick(v) if r.random() < 0.3 else v)
        return S(name), args

    def embed(self, e, depth):
        """put expression e at a random position and depth of a valid expression"""
        r = self.rng
        for _ in range(depth):
            a, b = self.tick(r.randint(0, 9)), r.randint(0, 9)
            e = r.choice([[S("+"), a, e], [S("list"), a, e, b], [[S("lambda"), [S("z")], S("z")], e], [S("if"), True, e, b], [S("vector"), e, a],
                          [S("id"), e], [S("cons"), e, a], [S("f2"), a, e], [S("if"), e, a, b]])
        return e

    def in_context(self, ctx, fault):
        """returns (definitions before, faulting expression) for a fault in a calling context"""
        r = self.rng
        op, args = self.fault_call(fault)
        call = args if op is None else [op] + args
        defs = []
        if ctx == "direct":
            return defs, self.embed(call, r.randint(0, 3))
        if ctx == "tail":
            # the faulting call sits in the tail position of the procedure entered at trampoline iteration k
            k = r.choice([1, 2, r.randint(3, 6)])
            names = ["t%d" % i for i in range(k)]
            tailpos = r.choice([lambda c: c, lambda c: [S("if"), True, c, 0], lambda c: [S("if"), False, 0, c],
                                # ... or an operand of the tail call, between two ticking operands: no operand is evaluated once another one has failed
                                lambda c: [S("list"), self.tick(11), c, self.tick(12)], lambda c: [S("fr"), self.tick(11), c, self.tick(12), self.tick(13)]])
            for i, n in enumerate(names):
                body = tailpos(call) if i == k - 1 else [S(names[i + 1])]
                defs.append([S("define"), [S(n)], self.tick(i), body])
            return defs, self.embed([S(names[0])], r.randint(0, 2))
        if ctx == "apply":
            if op is None:
                e = [S("apply"), [S("lambda"), [], call], q([])]
            else:
                if r.random() < 0.5 or not args:
                    e = [S("apply"), op, [S("list")] + args]
                else:
                    e = [S("apply"), op, args[0], [S("list")] + args[1:]]
            return defs, self.embed(e, r.randint(0, 2))
        if ctx == "library":
            lib = r.choice(["map", "for-each", "fold-left", "fold-right"])
            direct_arg = (op is not None and len(args) == (1 if lib in ("map", "for-each") else 2) and r.random() < 0.5 and fault in ("non-procedure", "arity", "wrong-type"))
            if lib in ("map", "for-each"):
                if fault == "non-procedure" and r.random() < 0.5:
                    e = [S(lib), op, q([1, 2])]                      # the library itself calls the non-procedure
                elif fault == "arity" and r.random() < 0.5:
                    e = [S(lib), S("f2"), q([1, 2])]                 # the library calls f2 with one argument
                elif fault == "wrong-type" and r.random() < 0.4:
                    e = [S(lib), S("car"), q([1, 2])]
                else:
                    e = [S(lib), [S("lambda"), [S("e")], self.tick(S("e")), call], q([1, 2, 3])]
            else:
                if fault == "arity" and r.random() < 0.5:
                    e = [S(lib), S("f0"), 0, q([1, 2])]
                elif fault == "non-procedure" and r.random() < 0.5:
                    e = [S(lib), op, 0, q([1, 2])]
                else:
                    e = [S(lib), [S("lambda"), [S("e"), S("acc")], self.tick(S("e")), call], 0, q([1, 2, 3])]
            return defs, self.embed(e, r.randint(0, 2))
        if ctx == "derived":
            w = r.choice([
                lambda c: [S("let"), [[S("y"), self.tick(1)]], [S("cond"), [[S(">"), S("x"), 0], c], [S("else"), 0]]],
                lambda c: [S("let*"), [[S("y"), 1], [S("z"), c]], S("z")],
                lambda c: [S("begin"), self.tick(0), c, self.tick(1)],
                lambda c: [S("when"), [S(">"), S("x"), 0], self.tick(0), c, 5],
                lambda c: [S("case"), S("x"), [[1, 2], c], [S("else"), 0]],
                lambda c: [S("and"), self.tick(True), c, self.tick(1)],
                lambda c: [S("or"), self.tick(False), c],
                lambda c: [S("cond"), [self.tick(True), S("=>"), [S("lambda"), [S("v")], c]]],
                lambda c: [S("unless"), [S("<"), S("x"), 0], c],
            ])
            defs.append([S("define"), [S("h"), S("x")], w(call)])
            return defs, self.embed([S("h"), r.choice([1, 2])], r.randint(0, 2))
        raise ValueError(ctx)

    def program(self, ctx, fault):
        r = self.rng
        forms = [parse(t) for t in PRELUDE]
        # some ordinary valid forms first
        g = gen_core.G(r, ticks=True, max_depth=3)
        g.tickn = 1000
        pre = [gen_core.render(f, "plain") for f in g.program()[: r.randint(0, 3)]]
        forms += pre
        defs, fexpr = self.in_context(ctx, fault)
        forms += defs
        escaping = r.random() < 0.3
        if escaping:
            # the fault happens inside a procedure that has internal definitions and has let closures of its frame escape by assignment before
            forms.append([S("define"), [S("risky"), S("seed")], [S("define"), S("n"), [S("+"), S("seed"), 1]], [S("define"), [S("peek")], S("n")],
                          [S("set!"), S("kept"), [S("lambda"), [], [S("list"), S("n"), S("seed")]]], [S("vector-set!"), S("keptv"), 0, S("peek")]]
                         # the fault is met in an operand of the tail call, or in a body form before the last one, or inside a let whose variables a kept closure reads too
                         + r.choice([[[S("list"), fexpr, S("n")]], [fexpr, [S("list"), 0, S("n")]], [[S("if"), fexpr, 1, 2], S("n")],
                                     [[S("let"), [[S("m"), [S("*"), S("n"), 2]]], [S("set!"), S("kept"), [S("lambda"), [], [S("list"), S("n"), S("seed"), S("m")]]], fexpr, S("m")], S("n")]]))
            fexpr = [S("risky"), r.randint(10, 90)]
        u1, u2, u3 = r.randint(100, 199), r.randint(200, 299), r.randint(300, 399)
        forms.append([S("define"), S("before"), u1])
        # effects completed before the fault stay, effects after it never happen
        pre_eff = [[S("set!"), S("g1"), u2], [S("vector-set!"), S("vv"), 0, u3], self.tick(77)]
        post_eff = [[S("set!"), S("g1"), -1], [S("vector-set!"), S("vv"), 1, -1], self.tick(78)]
        style = r.randrange(5)
        extra = []          # indices of further forms that must fail (reads of names a failed definition / assignment must not have bound)
        if style == 3:
            # the fault is met while the value of a definition of a NEW name is computed: the name stays unbound
            faulting = [S("define"), S("zfresh"), [S("list"), [S("begin")] + pre_eff + [0], fexpr, [S("begin")] + post_eff]]
        elif style == 4:
            # ... or of a name that is bound already: it keeps its value
            faulting = [S("define"), S("before"), [S("list"), [S("begin")] + pre_eff + [0], fexpr, [S("begin")] + post_eff]]
        elif style == 0:
            faulting = [S("begin")] + pre_eff + [fexpr] + post_eff
        elif style == 1:
            faulting = [[S("lambda"), [S("a"), S("b"), S("c")], S("b")]] + [[S("begin")] + pre_eff + [1], fexpr, [S("begin")] + post_eff + [3]]
        else:
            faulting = [S("list"), [S("begin")] + pre_eff + [0], [S("if"), True, fexpr, 0], [S("begin")] + post_eff]
        forms.append(faulting)
        fault_index = len(forms) - 1
        forms.append([S("list"), S("g1"), [S("vector-ref"), S("vv"), 0], [S("vector-ref"), S("vv"), 1], S("before")])
        if style == 3:
            forms.append(S("zfresh")); extra.append(len(forms) - 1)
            forms.append([S("set!"), S("zfresh"), 1]); extra.append(len(forms) - 1)
        if fault in ("unbound-set", "unbound-read") and r.random() < 0.6:
            # the variable that could not be read or assigned is still unbound afterwards: reading and assigning it fail again
            forms.append(S("no-such-variable")); extra.append(len(forms) - 1)
            forms.append([S("set!"), S("no-such-variable"), 2]); extra.append(len(forms) - 1)
            forms.append([S("list"), S("no-such-variable")]); extra.append(len(forms) - 1)
        if escaping:
            forms.append(parse("(list (kept) ((vector-ref keptv 0)))"))
        forms.append(parse("(f2 (f0) (car (fr 1 2)))"))
        forms.append([S("define"), S("after"), [S("+"), S("before"), 1]])
        forms.append(S("after"))
        # calibration: the same kind of direct non-procedure call, so that the order of operand evaluation vs. the check is one consistent strategy
        forms.append([5, self.tick(1)])
        forms.append(parse("(vector-ref vv 0)"))
        self.extra_errors = extra
        return forms, fault_index


def run(tier, seed):
    ctx = core.Ctx(PID, tier, seed, LEVEL)
    per_cell = 30 if tier == "quick" else core.share(4000)
    legs = ["dev"] if tier == "quick" else ["dev", "release"]
    ctx.rule = ("fault enumeration: %d fault kinds x %d calling contexts, %d programs per cell; the faulting operation sits at a random position and depth of an otherwise "
                "valid program, between effects (set!, vector-set!, define, ticks) and is followed by forms reading them back and by ordinary forms. "
                "distinct_nontrivial = distinct program skeletons whose faulting form raised an error of the expected kind and whose later forms agreed with the model"
                % (len(FAULTS), len(CONTEXTS), per_cell))
    ctx.assumptions = ["the order between evaluating operands and checking the operator is unspecified but must be one consistent strategy within a program",
                       "error kinds are compared, not messages"]
    progs = []
    for f in FAULTS:
        for c in CONTEXTS:
            n = 0
            tries = 0
            while n < per_cell and tries < per_cell * 5:
                tries += 1
                g = FG(ctx.rng)
                forms, fi = g.program(c, f)
                try:
                    exp = diff.model_run(forms, Strategy())
                except (OutOfModel, RecursionError):
                    ctx.count("generated_discarded"); continue
                # exactly the intended fault kind at the intended form, and the calibration fault; nothing else
                errs = [i for i, e in enumerate(exp) if e[0] == "err"]
                if errs != sorted([fi, len(forms) - 2] + g.extra_errors):
                    ctx.count("generated_discarded"); continue
                progs.append((f, c, forms, fi)); n += 1
    cell_hits = {}
    for leg in legs:
        jobs = [diff.job_for(forms, "p%d" % i) for i, (f, c, forms, fi) in enumerate(progs)]
        for ji, j in enumerate(jobs):
            if ji % 6 == 3:
                diff.age(j, ctx.rng, ctx.rng.choice([50, 300]))       # a sixth of the programs on an interpreter that has already seen many failing forms
        recs = core.run_jobs(jobs, leg, timeout=600 if tier == "quick" else 3000, tag="c08")
        for (f, c, forms, fi), rec in zip(progs, recs):
            ctx.evaluations += 1
            cell = "%s/%s" % (f, c)
            if rec is None or "steps" not in rec:
                if rec and "abort" in rec:
                    ctx.violation({"what": "process died on a run-time fault", "kind": "abort", "cell": cell}, {"forms": [show(x) for x in forms], "abort": rec["abort"]})
                else:
                    ctx.inconclusive_cases += 1
                continue
            verdict, detail = diff.compare_history(forms, rec["steps"])
            if verdict == "ok":
                cell_hits[cell] = cell_hits.get(cell, 0) + 1
                ctx.nontriv(" ".join(skeleton(x) for x in forms[len(PRELUDE):]))
                e = rec["steps"][fi].get("err", {})
                ctx.count("errkind_" + e.get("kind", "?"))
            elif verdict in ("oom", "fuel"):
                ctx.inconclusive_cases += 1
            else:
                where = "faulting-form" if detail["form_index"] == fi else ("later-form" if detail["form_index"] > fi else "earlier-form")
                ctx.violation({"what": "fault program disagrees with the reference semantics", "kind": "fault", "cell": cell, "fault": f, "context": c, "where": where,
                               "why": detail["why"][:300], "form": detail["form"][:300], "leg": leg, "dedupe": "%s|%s|%s" % (cell, where, detail["why"][:30])},
                              {"forms": [show(x) for x in forms], "detail": detail, "leg": leg, "fault_index": fi})
        ctx.legs.append(leg)
    ctx.observed["cell_hits"] = cell_hits
    ctx.observed["cells_total"] = len(FAULTS) * len(CONTEXTS)
    ctx.observed["cell_minimum"] = min(20, per_cell // 2) * len(legs) if core.PART_N == 1 else 20 * len(legs)
    for f, c, forms, fi in progs[:: max(1, len(progs) // 4)][:4]:
        ctx.sample({"cell": "%s/%s" % (f, c), "forms": [show(x) for x in forms[len(PRELUDE):]]})
    rc = ctx.finish(min_evals=200, min_nontrivial=40)
    if core.PART_N == 1 and rc == core.EXIT_HELD:
        return post(ctx) or rc
    return rc


def post(ctx):
    """every fault x context cell must have been observed often enough, otherwise the run decides nothing"""
    hits = ctx.observed.get("cell_hits", {})
    need = ctx.observed.get("cell_minimum", 20)
    low = [c for c in ("%s/%s" % (f, c) for f in FAULTS for c in CONTEXTS) if hits.get(c, 0) < need]
    if low:
        print("INCONCLUSIVE property=C08 fault x context cells with too few agreeing observations: %s" % low)
        return core.EXIT_INCONCLUSIVE
    return None


def replay(path):
    from . import sxread
    data = json.load(open(path))
    forms = [sxread.parse_one(t) for t in data["replay"]["forms"]]
    rec = core.run_jobs([diff.job_for(forms)], data["replay"].get("leg", "dev"), shards=1, timeout=120)[0]
    verdict, detail = diff.compare_history(forms, rec["steps"])
    print("\n".join(data["replay"]["forms"])); print(verdict, json.dumps(detail, default=str)[:1500])
    return 0 if verdict == "ok" else 1

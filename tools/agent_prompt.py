#!/usr/bin/env python3
"""Print the prompt given to an independent mutation sub-agent for one property.
The agent gets only the property text and a scratch worktree; nothing from /verif."""
import json, sys
pid = sys.argv[1]
wt = sys.argv[2] if len(sys.argv) > 2 else f"/tmp/wt-{pid}"
for l in open('/verif/properties.jsonl'):
    p = json.loads(l)
    if p['id'] == pid:
        break
else:
    sys.exit("no such property")
print(f"""You are working on a scratch git worktree of the Rust project Danielmelody/Ruschm (a small R7RS Scheme interpreter:
lexer, parser with a syntax-rules expander, tree-walking evaluator with tail calls, numeric tower, library/import system)
at {wt}. Work ONLY inside {wt} (never touch /repo or /verif, do not read anything under /verif). There is no network; build with
`cargo build --offline` / `cargo test --workspace --offline` inside {wt} (Cargo.lock is already there).

The project is supposed to satisfy this semantic property:

  Title: {p['title']}
  Statement: {p['statement']}
  Scope: {p['quantifier']['text']}

Your task: produce TWO independent, realistic source changes ("m1" and "m2") to the project (files under src/, including the bundled
.sld Scheme sources if you like) each of which BREAKS this property while
  (a) still compiling without errors,
  (b) still passing the whole existing test suite unchanged (`cargo test --workspace --offline` in the worktree: all tests pass; do not edit tests),
  (c) looking like a plausible maintainer mistake or refactoring slip (an off-by-one, a dropped clone/check, a reordered step, a wrong
      variable, a cache that is not invalidated, a condition that is slightly too wide/narrow, ...) - not sabotage like `panic!()` or a check for a magic value,
  (d) needing something SPECIFIC to manifest: a particular multi-step sequence of operations, an unusual input shape, a particular nesting/
      combination of features, a boundary value, or two cooperating sites that each look fine alone. Ordinary simple use (the kind the
      existing tests and the examples/ directory exercise) must keep working. Prefer subtle over blatant; the two changes should touch
      different mechanisms.
Do not rely on `#[cfg(ruschm_verif)]` code (leave src/verif.rs and the cfg-guarded hooks alone).

For each change deliver, under {wt}/MUT/m1 and {wt}/MUT/m2:
  - patch.diff : `git diff` of the change against the worktree's HEAD (only the change, applying cleanly with `git apply` on HEAD)
  - a demonstration that FAILS with the change and PASSES without it: either demo.scm (a Scheme program run with
    `cargo run --offline -q -- demo.scm`; note that a program file must start with `(import (scheme base) (scheme write))` to get the
    standard library) together with expected.txt (the exact expected stdout on the unchanged code), or demo_test.rs (a Rust integration
    test to be dropped into tests/ and run with `cargo test --offline --test demo_test`).
  - notes.md : which part of the property is broken, what is needed for it to manifest, why existing tests do not notice.
Verify everything yourself: for each change, on a clean HEAD apply it, run the full test suite (must pass), run the demo (must fail / differ);
then `git checkout -- . ` (and remove any test file you added to tests/) and run the demo again (must pass). Leave the worktree's tracked
files unmodified at the end (`git status` clean except the MUT/ directory). Finally remove the build output with `rm -rf {wt}/target`.
Report briefly what the two changes are and the verification results.""")

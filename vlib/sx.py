"""S-expression data model shared by generators and reference models, plus a source-text printer.

Datum representation (also the AST of generated programs):
  int                exact integer          Fraction           exact ratio (den != 1)
  Real(bits)         binary32 inexact       bool               #t / #f
  Sym(name)          identifier             Char(c)            character
  str                string                 list               proper list
  Dot(items, tail)   improper list          Vec(items)         vector
"""
import struct
from fractions import Fraction


class Sym:
    __slots__ = ("name",)

    def __init__(self, name):
        self.name = name

    def __eq__(self, o):
        return isinstance(o, Sym) and o.name == self.name

    def __hash__(self):
        return hash(("sym", self.name))

    def __repr__(self):
        return "Sym(%r)" % self.name


class Char:
    __slots__ = ("ch",)

    def __init__(self, ch):
        self.ch = ch

    def __eq__(self, o):
        return isinstance(o, Char) and o.ch == self.ch

    def __hash__(self):
        return hash(("char", self.ch))

    def __repr__(self):
        return "Char(%r)" % self.ch


def f32_bits(x):
    """round a Python float (binary64) to binary32 and return its bit pattern"""
    try:
        return struct.unpack("<I", struct.pack("<f", x))[0]
    except OverflowError:
        return 0x7F800000 if x > 0 else 0xFF800000


def bits_f32(b):
    return struct.unpack("<f", struct.pack("<I", b & 0xFFFFFFFF))[0]


class Real:
    """binary32 value identified by its bit pattern"""
    __slots__ = ("bits",)

    def __init__(self, bits):
        self.bits = bits & 0xFFFFFFFF

    @staticmethod
    def of(x):
        return Real(f32_bits(float(x)))

    @property
    def value(self):
        return bits_f32(self.bits)

    def __eq__(self, o):
        return isinstance(o, Real) and o.bits == self.bits

    def __hash__(self):
        return hash(("real", self.bits))

    def __repr__(self):
        return "Real(%r)" % self.value


class Vec:
    __slots__ = ("items",)

    def __init__(self, items):
        self.items = list(items)

    def __eq__(self, o):
        return isinstance(o, Vec) and o.items == self.items

    def __hash__(self):
        return hash(("vec", tuple(map(_h, self.items))))

    def __repr__(self):
        return "Vec(%r)" % self.items


class Dot:
    __slots__ = ("items", "tail")

    def __init__(self, items, tail):
        self.items = list(items)
        self.tail = tail

    def __eq__(self, o):
        return isinstance(o, Dot) and o.items == self.items and o.tail == self.tail

    def __hash__(self):
        return hash(("dot", tuple(map(_h, self.items)), _h(self.tail)))

    def __repr__(self):
        return "Dot(%r, %r)" % (self.items, self.tail)


def _h(x):
    if isinstance(x, list):
        return ("list", tuple(map(_h, x)))
    return x


S = Sym

_ESC = {"\\": "\\\\", '"': '\\"', "\n": "\\n", "\t": "\\t", "\r": "\\r", "\a": "\\a", "\b": "\\b"}


def show_string(s):
    return '"' + "".join(_ESC.get(c, c) for c in s) + '"'


def show_real(r):
    """shortest decimal text that round-trips through binary32 (like Rust's {:?} for f32, always with '.' or 'e')"""
    v = r.value
    if v != v:
        return "NaN"
    if v in (float("inf"), float("-inf")):
        return "inf" if v > 0 else "-inf"
    # shortest repr that round trips in binary32
    for p in range(1, 18):
        s = "%.*g" % (p, v)
        if f32_bits(float(s)) == r.bits:
            break
    if "e" in s or "E" in s:
        m, e = s.lower().split("e")
        if "." not in m:
            m += ".0"
        return "%se%d" % (m, int(e))
    if "." not in s:
        s += ".0"
    return s


def show(d):
    """source text of a datum / program AST"""
    if d is True:
        return "#t"
    if d is False:
        return "#f"
    if isinstance(d, int):
        return str(d)
    if isinstance(d, Fraction):
        return "%d/%d" % (d.numerator, d.denominator)
    if isinstance(d, Real):
        return show_real(d)
    if isinstance(d, Sym):
        return d.name
    if isinstance(d, Char):
        return "#\\" + d.ch
    if isinstance(d, str):
        return show_string(d)
    if isinstance(d, list):
        if len(d) == 2 and d[0] == Sym("quote") and QUOTE_ABBREV:
            return "'" + show(d[1])
        return "(" + " ".join(show(x) for x in d) + ")"
    if isinstance(d, Dot):
        return "(" + " ".join(show(x) for x in d.items) + " . " + show(d.tail) + ")"
    if isinstance(d, Vec):
        return "#(" + " ".join(show(x) for x in d.items) + ")"
    if isinstance(d, Raw):
        return d.text
    if isinstance(d, RatLit):
        return "%d/%d" % (d.n, d.d)
    raise TypeError("cannot show %r" % (d,))


QUOTE_ABBREV = True


class RatLit:
    """a ratio literal as WRITTEN, possibly not in lowest terms (6/4, 6/3, -4/2): it denotes the reduced exact number"""
    __slots__ = ("n", "d")

    def __init__(self, n, d):
        self.n, self.d = n, d

    def __eq__(self, o):
        return isinstance(o, RatLit) and (o.n, o.d) == (self.n, self.d)

    def __hash__(self):
        return hash(("ratlit", self.n, self.d))

    def __repr__(self):
        return "RatLit(%d, %d)" % (self.n, self.d)


class Raw:
    """verbatim source text spliced into a program"""
    __slots__ = ("text",)

    def __init__(self, text):
        self.text = text


def q(d):
    return [Sym("quote"), d]


def skeleton(d):
    """program skeleton: literals and identifiers erased (used to count distinct program shapes)"""
    if isinstance(d, list):
        if d and isinstance(d[0], Sym) and d[0].name in KEYWORDS:
            return "(" + d[0].name + " " + " ".join(skeleton(x) for x in d[1:]) + ")"
        return "(" + " ".join(skeleton(x) for x in d) + ")"
    if isinstance(d, Dot):
        return "(" + " ".join(skeleton(x) for x in d.items) + " . " + skeleton(d.tail) + ")"
    if isinstance(d, Vec):
        return "#(" + " ".join(skeleton(x) for x in d.items) + ")"
    if isinstance(d, Sym):
        return d.name if d.name in KEYWORDS or d.name in BUILTIN_NAMES else "x"
    if isinstance(d, bool):
        return "b"
    if isinstance(d, (int, Fraction, Real, RatLit)):
        return "n"
    if isinstance(d, str):
        return "s"
    if isinstance(d, Char):
        return "c"
    return "?"


KEYWORDS = {"define", "lambda", "if", "quote", "set!", "begin", "let", "let*", "cond", "case", "and", "or", "when",
            "unless", "else", "=>", "define-syntax", "syntax-rules", "import", "define-library", "export"}
BUILTIN_NAMES = {"apply", "car", "cdr", "cons", "list", "vector", "vector-ref", "vector-set!", "make-vector", "map",
                 "for-each", "append", "tick", "+", "-", "*", "=", "<", ">", "not", "null?", "pair?", "eqv?", "eq?",
                 "equal?", "vector-length", "fold-left", "fold-right", "list-tail", "list-ref", "memv", "memq"}

"""C04 - syntax-rules expansion selects the first matching rule and fills its template.
Monitor: (a) every pattern of bounded size over a small alphabet against every use of bounded size (single rules and
sampled two-rule sets), (b) random larger rule sets with uses derived from their own patterns and single-point mutations
of them.  Observed through Interpreter::eval (value of (m arg ...) with quoted templates) and, for a sample, through
Transformer::transform (the expanded datum).  Oracle: independent non-hygienic matcher/instantiator (ref_macro)."""
import itertools, json
from . import core, ref_macro
from .sx import S, Sym, Vec, Dot, Char, show, q
from .ref_scheme import Machine, match_value

PID = "C04"
LEVEL = "exploration"
ELL = Sym("...")
LIT = "lit"

PELEMS = ["var", "_", "lit", 1, True, "s", ["var"], Vec(["var"]), ["var", "..."], ["var", "var"], Vec(["var", "..."]), Vec([]), []]
UELEMS = [S("a"), S(LIT), 1, 2, True, "s", [], Vec([]), [S("a")], Vec([S("a")]), [1, 2], [S("a"), S(LIT)], Vec([1, 2]), Dot([S("a")], 2), Dot([1, 2], S("a")), LIT]


def realize(skel, counter):
    """skeleton with 'var' placeholders -> pattern with distinct variable names"""
    if skel == "var":
        counter[0] += 1
        return S("v%d" % counter[0])
    if skel == "_":
        return S("_")
    if skel == "lit":
        return S(LIT)
    if skel == "...":
        return ELL
    if isinstance(skel, list):
        return [realize(x, counter) for x in skel]
    if isinstance(skel, Vec):
        return Vec([realize(x, counter) for x in skel.items])
    return skel


def pattern_vars(p, under=False, out=None):
    """[(name, group)] where group = None for plain variables, or an id shared by the variables of one ellipsis"""
    out = out if out is not None else []
    if isinstance(p, Sym):
        if p.name not in ("_", "...", LIT):
            out.append((p.name, under))
        return out
    seq = p if isinstance(p, list) else (p.items if isinstance(p, Vec) else None)
    if seq is None:
        return out
    if seq and seq[-1] == ELL:
        for x in seq[:-2]:
            pattern_vars(x, under, out)
        gid = under or ("g%d" % len(out))
        pattern_vars(seq[-2], gid, out)
    else:
        for x in seq:
            pattern_vars(x, under, out)
    return out


def template_for(p, idx, rng=None):
    """a template listing every pattern variable: plain ones as is, the variables of one ellipsis as (v1 v2) ... or v1 ... v2 ..."""
    vs = pattern_vars(p)
    items = [S("r%d" % idx)]
    groups = {}
    for name, g in vs:
        if not g:
            items.append(S(name))
        else:
            groups.setdefault(g, []).append(S(name))
    if rng is not None and rng.random() < 0.5:
        # free identifiers in the template, named like pattern variables of other rules: they must stay as they are
        own = {n for n, g in vs}
        for cand in rng.sample(["v1", "v2", "v3", "v4", "v5"], 2):
            if cand not in own:
                items.insert(1, S(cand))
    plain = [x for x in items[1:]]
    if rng is not None and len(plain) >= 2 and not groups and rng.random() < 0.15:
        return Dot(items[:-1], items[-1])        # a dotted template (a b . c)
    for g, names in groups.items():
        style = 0 if rng is None else rng.randrange(7)
        if style == 5:
            # the same ellipsis variable mentioned TWICE: in two runs, or twice inside one repeated sub-template
            items += [names[0], ELL, S("mid"), names[0], ELL] if rng.random() < 0.5 else [[names[0], names[-1], names[0]], ELL]
        elif style == 6:
            items += [[names[0], ELL], Vec([names[-1], ELL]), [S("again"), names[0]], ELL]
        elif style == 4:
            # a dotted sub-template under the ellipsis: (k . v) ... or (k v1 . v2) ...
            items += [Dot([S("k")] + names[:-1], names[-1]), ELL]
        elif style == 3:
            items += [Vec([S("k")] + names), ELL]
        elif len(names) == 1 and style != 1:
            items += [names[0], ELL]
        elif style == 0 or style == 1:
            items += [list(names), ELL]
        else:
            for nme in names:
                items += [nme, ELL]
    return items


def define_text(rules):
    return "(define-syntax m (syntax-rules (%s) %s))" % (LIT, " ".join("((m %s) '%s)" % (" ".join(show(x) for x in p), show(t)) for p, t in rules))


def rand_datum(rng, depth):
    c = rng.random()
    if depth <= 0 or c < 0.5:
        return rng.choice([S("a"), S("b"), S(LIT), 1, 2, 7, True, False, "s", "t", Char("c"), LIT, LIT])      # LIT as a string: spelled like the literal identifier, but a string
    n = rng.randint(0, 3)
    items = [rand_datum(rng, depth - 1) for _ in range(n)]
    if items and rng.random() < 0.12:
        return Dot(items, rng.choice([S("a"), 1, 2, "s"]))      # a dotted datum: no proper-list pattern matches it
    return Vec(items) if rng.random() < 0.3 else items


def rand_pattern(rng, depth, top=False):
    """(pattern skeleton list) random pattern args"""
    n = rng.randint(0 if top else 1, 4)
    items = []
    for _ in range(n):
        c = rng.random()
        if depth <= 0 or c < 0.45:
            items.append(rng.choice(["var", "var", "_", "lit", 1, 2, True, "s"]))
        elif c < 0.8:
            items.append(rand_pattern(rng, depth - 1))
        else:
            items.append(Vec(rand_pattern(rng, depth - 1)))
    if items and rng.random() < 0.4 and not has_ellipsis(items[-1]):
        # any sub-pattern may be followed by the ellipsis: variables, sub-lists, vectors, and (rarely) literals, data and _
        if not (items[-1] in ("lit", "_") or isinstance(items[-1], (int, str, bool))) or rng.random() < 0.25:
            items.append("...")
    return items


def has_ellipsis(x):
    if x == "...":
        return True
    if isinstance(x, list):
        return any(has_ellipsis(y) for y in x)
    if isinstance(x, Vec):
        return any(has_ellipsis(y) for y in x.items)
    return False


def use_from_pattern(rng, p):
    """argument data that the pattern matches"""
    def one(x):
        if isinstance(x, Sym):
            if x.name == LIT:
                return S(LIT)
            return rand_datum(rng, 2)
        if isinstance(x, list):
            return seq(x)
        if isinstance(x, Vec):
            return Vec(seq(x.items))
        return x

    def seq(xs):
        if xs and xs[-1] == ELL:
            return [one(y) for y in xs[:-2]] + [one(xs[-2]) for _ in range(rng.randint(1, 3) if rng.random() > 0.04 else rng.choice([20, 60]))]
        return [one(y) for y in xs]
    return seq(p)


def mutate_use(rng, u):
    u = json_copy(u)
    paths = []

    def walk(x, path):
        paths.append(path)
        seq = x if isinstance(x, list) else (x.items if isinstance(x, Vec) else None)
        if seq is not None:
            for i, y in enumerate(seq):
                walk(y, path + [i])
    walk(u, [])
    path = rng.choice(paths)

    def get(x, path):
        for i in path:
            x = x[i] if isinstance(x, list) else x.items[i]
        return x
    if not path:
        target_seq = u
        k = rng.random()
        if k < 0.5 and u:
            del u[rng.randrange(len(u))]
        else:
            u.insert(rng.randrange(len(u) + 1), rand_datum(rng, 1))
        return u
    parent = get(u, path[:-1])
    pseq = parent if isinstance(parent, list) else parent.items
    i = path[-1]
    x = pseq[i]
    k = rng.random()
    if k < 0.2:
        del pseq[i]
    elif k < 0.4:
        pseq.insert(i, rand_datum(rng, 1))
    elif k < 0.5:
        pseq[i] = Vec(x) if isinstance(x, list) else (list(x.items) if isinstance(x, Vec) else [x])
    elif k < 0.6:
        pseq[i] = Dot(list(x), rng.choice([3, S("a")])) if isinstance(x, list) and x else ([x] if not isinstance(x, Dot) else list(x.items))
    elif k < 0.8:
        pseq[i] = rng.choice([S("a"), S(LIT), 1, 2, "s", "t", True, False]) if not (isinstance(x, Sym) and x.name == LIT and rng.random() < 0.5) else LIT
    else:
        pseq[i] = rand_datum(rng, 2)
    return u


def json_copy(x):
    if isinstance(x, list):
        return [json_copy(y) for y in x]
    if isinstance(x, Vec):
        return Vec([json_copy(y) for y in x.items])
    return x


def pskel(x):
    if isinstance(x, Sym):
        return x.name if x.name in ("_", "...", LIT) else "v"
    if isinstance(x, list):
        return "(" + " ".join(pskel(y) for y in x) + ")"
    if isinstance(x, Vec):
        return "#(" + " ".join(pskel(y) for y in x.items) + ")"
    return show(x)


def uskel(x):
    if isinstance(x, list):
        return "(" + " ".join(uskel(y) for y in x) + ")"
    if isinstance(x, Vec):
        return "#(" + " ".join(uskel(y) for y in x.items) + ")"
    if isinstance(x, Sym):
        return "lit" if x.name == LIT else "y"
    return show(x)


def use_text(u):
    if isinstance(u, Dot):
        return "(m %s . %s)" % (" ".join(show(x) for x in u.items), show(u.tail))
    return "(m %s)" % " ".join(show(x) for x in u)


def judge(ctx, rules, use, step, via):
    machine = Machine()
    try:
        if isinstance(use, Dot):
            raise ref_macro.NoMatch()       # the use itself is a dotted list: no proper-list pattern matches it
        idx, datum = ref_macro.expand(rules, {LIT}, use)
        exp = ("ok", idx, datum)
    except ref_macro.NoMatch:
        exp = ("nomatch", None, None)
    except ValueError:
        ctx.count("outside_class_skipped"); return
    kind, val = core.outcome(step)
    ctx.evaluations += 1
    key = "%s|%s|%s" % (";".join(pskel(p) for p, t in rules), uskel(use), exp[0] + str(exp[1]))
    desc = None
    if kind in ("missing", "abort", "fuel"):
        ctx.inconclusive_cases += 1; return
    if kind == "panic":
        desc = {"what": "macro use panicked", "observed": val}
    elif exp[0] == "ok":
        if kind != "ok":
            desc = {"what": "use matches rule %d but expansion failed" % exp[1], "observed": val.get("kind"), "expected": show(exp[2])}
        elif not match_value(machine.datum(exp[2]), val):
            desc = {"what": "expansion differs from the first matching rule's instantiated template", "expected_rule": exp[1], "expected": show(exp[2]),
                    "observed": val.get("disp", val)}
    else:
        if kind == "ok":
            desc = {"what": "use matches no rule but was silently expanded", "observed": val.get("disp", val)}
        elif not (val.get("kind", "").startswith("Syntax.") or val.get("kind", "").startswith("Logic.MetaCircularSyntax")):
            desc = {"what": "use matches no rule: expected a syntax error", "observed": val.get("kind")}
    if desc is None:
        ctx.nontriv(key)
        ctx.count("agree_" + exp[0])
        return
    desc.update({"kind": "macro", "via": via, "rules": define_text(rules), "use": use_text(use),
                 "dedupe": "%s|%s|%s" % (desc["what"][:40], via, len(rules))})
    ctx.violation(desc, {"define": define_text(rules), "use": use_text(use)})


def run(tier, seed):
    ctx = core.Ctx(PID, tier, seed, LEVEL)
    rng = ctx.rng
    maxp = 2 if tier == "quick" else 3
    maxu = 3
    # ---------------- (a) exhaustive single rules
    skels = []
    for n in range(0, maxp + 1):
        for t in itertools.product(PELEMS, repeat=n):
            skels.append(list(t))
            if t and (t[-1] == "var" or t[-1] == ["var"] or t[-1] == ["var", "var"] or isinstance(t[-1], Vec) and t[-1].items == ["var"]):
                skels.append(list(t) + ["..."])
    uses = []
    for n in range(0, maxu + 1):
        for t in itertools.product(UELEMS, repeat=n):
            uses.append(list(t))
    if tier == "quick":
        uses3 = [u for u in uses if len(u) == 3]
        uses = [u for u in uses if len(u) < 3] + rng.sample(uses3, 300)
    rulesets = []
    for sk in core.mine(skels):
        p = realize(sk, [0])
        rulesets.append(([(p, template_for(p, 0))], uses))
    n_single = len(rulesets)
    # ---------------- two-rule sets (first match wins): sampled pairs of the same patterns
    for _ in range(150 if tier == "quick" else core.share(3000)):
        a, b = rng.choice(skels), rng.choice(skels)
        pa, pb = realize(a, [0]), realize(b, [0])
        us = [u for u in uses if len(u) <= 2] + rng.sample(uses, 60)
        rulesets.append(([(pa, template_for(pa, 0, rng)), (pb, template_for(pb, 1, rng))], us))
    # ---------------- (b) random larger rule sets, uses derived from the patterns and mutated
    for _ in range(1200 if tier == "quick" else core.share(25000)):
        k = rng.randint(1, 5) if rng.random() > 0.03 else rng.choice([12, 20])
        rules = []
        for i in range(k):
            p = realize(rand_pattern(rng, rng.randint(1, 3), top=True), [0])
            rules.append((p, template_for(p, i, rng)))
        us = []
        for p, t in rules:
            u = use_from_pattern(rng, p)
            us.append(u)
            for _ in range(3):
                us.append(mutate_use(rng, u))
            if u and rng.random() < 0.3:
                us.append(Dot(list(u), rng.choice([3, S("a"), []]) or 3))     # the whole use as a dotted list
        rulesets.append((rules, us))
    ctx.rule = ("(a) every single-rule macro whose pattern has <= %d elements over {var _ literal-id 1 #t \"s\" (var) #(var) (var ...) (var var) #(var ...)} with an optional final ellipsis, "
                "against every use of <= %d arguments over 12 data%s; sampled two-rule sets over the same patterns; (b) random rule sets (1-5 rules, pattern depth <= 3) with uses "
                "instantiated from each rule's own pattern and 3 single-point mutations each. distinct_nontrivial = distinct (pattern skeletons, use skeleton, outcome) triples "
                "that agreed with the reference matcher" % (maxp, maxu, " (3-argument uses: 300 sampled)" if tier == "quick" else ""))
    ctx.assumptions = ["non-hygienic matcher for the class the property names; one or more items per ellipsis", "templates are quoted data, so the expansion is observed as a value"]
    ctx.observed["single_rule_patterns"] = n_single
    jobs = []
    for rules, us in rulesets:
        steps = [{"src": define_text(rules)}] + [{"src": use_text(u), "disp": True} for u in us]
        jobs.append({"id": "c04", "interps": [{"stdlib": True}], "steps": steps, "fuel": 20000})
    recs = core.run_jobs(jobs, "dev" if tier == "quick" else "release", timeout=900 if tier == "quick" else 3000, tag="c04")
    for (rules, us), rec in zip(rulesets, recs):
        if rec is None or "steps" not in rec:
            ctx.inconclusive_cases += len(us)
            if rec and ("abort" in rec or "hang" in rec):
                ctx.violation({"what": "process died or hung while expanding", "kind": "abort", "rules": define_text(rules), "detail": rec.get("abort") or rec.get("hang")}, {"define": define_text(rules)})
            continue
        st = rec["steps"]
        k0, v0 = core.outcome(st[0])
        if k0 != "ok":
            ctx.violation({"what": "a define-syntax inside the supported class was rejected", "kind": "define", "rules": define_text(rules), "observed": st[0],
                           "dedupe": "define|" + ";".join(pskel(p) for p, t in rules)[:60]}, {"define": define_text(rules)})
            continue
        for u, s in zip(us, st[1:]):
            judge(ctx, rules, u, s, "eval")
    ctx.legs.append("eval")
    # ---------------- redefinition: the keyword m is defined again with other rules on the same interpreter (and once as a procedure in between);
    # uses are judged by the rules in force, also uses that matched under the old rules only
    redef = [rs for rs in rulesets[n_single:]]
    rng.shuffle(redef)
    rjobs, rmeta = [], []
    for k in range(0, min(len(redef) - 1, 400 if tier == "quick" else 6000), 2):
        (r1, u1), (r2, u2) = redef[k], redef[k + 1]
        mixed = u2[:12] + u1[:8]
        steps = [{"src": define_text(r1)}] + [{"src": use_text(u), "disp": True} for u in u1[:8]]
        # a procedure with a PARAMETER named like the keyword is defined (define shorthand / lambda) and called: later uses of m are still macro uses
        steps += [{"src": rng.choice(["(define (zf m) (list m 1))", "(define zf (lambda (m) (list m 1)))", "(define (zf a . m) (list m 1))"])}, {"src": "(car (zf 5 6))" if False else "(pair? (zf 5))", "disp": True}]
        steps += [{"src": use_text(u), "disp": True} for u in u1[:4]]      # the same uses once more: m is still the macro
        between = False      # (a variable definition of m between the two: m stays a macro in Ruschm; no property speaks about that, see DESIGN 4.3)
        if between:
            steps += [{"src": "(define (m . args) (cons 'procedure-m args))"}, {"src": "(m 1 2)", "disp": True}]
        # the second definition sometimes arrives in ONE submission with a form that fails after it: the forms before the failing one have taken effect
        failing_tail = (k // 2) % 3 == 1
        steps += [{"src": define_text(r2) + (" (vector-ref (vector) 0) (define-syntax m (syntax-rules () ((m . any) 'never-evaluated)))" if failing_tail else "")}]
        steps += [{"src": use_text(u), "disp": True} for u in mixed]
        rjobs.append({"id": "c04r", "interps": [{"stdlib": True}], "steps": steps, "fuel": 20000}); rmeta.append((r1, u1[:8], r2, mixed, (between, failing_tail)))
    rrecs = core.run_jobs(rjobs, "dev" if tier == "quick" else "release", timeout=900, tag="c04r")
    for (r1, u1, r2, mixed, (between, failing_tail)), rec in zip(rmeta, rrecs):
        if rec is None or "steps" not in rec:
            ctx.inconclusive_cases += 1; continue
        st = rec["steps"]
        pos = 1
        for u in u1:
            judge(ctx, r1, u, st[pos], "eval-before-redefinition"); pos += 1
        kz, vz = core.outcome(st[pos + 1])
        if core.outcome(st[pos])[0] != "ok" or kz != "ok" or vz.get("disp") != "#t":
            ctx.violation({"what": "a procedure with a parameter named like the macro keyword could not be defined and called", "kind": "macro", "via": "redefinition", "observed": [st[pos], st[pos + 1]],
                           "dedupe": "param-named-m"}, {"define": define_text(r1)})
        pos += 2
        for u in u1[:4]:
            judge(ctx, r1, u, st[pos], "eval-after-parameter-named-like-keyword"); pos += 1
        if between:
            k1, v1 = core.outcome(st[pos + 1])
            if k1 != "ok" or v1.get("disp") != "(procedure-m 1 2)":
                ctx.violation({"what": "after (define (m . args) ..) the name m still denotes the macro", "kind": "macro", "via": "redefinition", "observed": v1,
                               "rules": define_text(r1), "dedupe": "redef-proc"}, {"define": define_text(r1)})
            pos += 2
        k0, v0 = core.outcome(st[pos]); pos += 1
        if failing_tail:
            if k0 != "err" or not str(v0.get("kind", "")).startswith("Logic."):
                ctx.violation({"what": "a submission whose second form faults did not report that fault", "kind": "define", "rules": define_text(r2), "observed": st[pos - 1], "dedupe": "redef-failing-tail"},
                              {"define": define_text(r2)})
                continue
            ctx.count("redefinitions_in_a_failing_submission")
        elif k0 != "ok":
            ctx.violation({"what": "a second define-syntax of the same keyword was rejected", "kind": "define", "rules": define_text(r2), "observed": st[pos - 1], "dedupe": "redef-define"},
                          {"define": define_text(r2)})
            continue
        for u in mixed:
            judge(ctx, r2, u, st[pos], "eval-after-redefinition"); pos += 1
        ctx.count("redefinitions")
    ctx.legs.append("redefinition")
    # ---------------- Transformer::transform on a sample
    sample = rng.sample(rulesets, min(len(rulesets), 300 if tier == "quick" else core.share(3000)))
    ejobs = [{"id": i, "def": define_text(rules), "uses": [use_text(u) for u in us[:40]]} for i, (rules, us) in enumerate(sample)]
    erecs = core.run_driver("expand", ejobs, "dev" if tier == "quick" else "release", timeout=600, tag="c04x")
    for (rules, us), rec in zip(sample, erecs):
        if not rec or "results" not in rec:
            ctx.inconclusive_cases += 1; continue
        for u, r in zip(us[:40], rec["results"]):
            # the expanded datum is (quote T): present it to the same judge as a value
            step = dict(r)
            if "ok" in r and isinstance(r["ok"], dict) and "datum" in r["ok"]:
                d = r["ok"]["datum"]
                inner = d["l"][1] if "l" in d and len(d["l"]) == 2 and d["l"][0] == {"y": "quote"} else None
                step = {"ok": datum_as_value(inner)} if inner is not None else {"ok": {"weird": d}}
            judge(ctx, rules, u, step, "transform")
    ctx.legs.append("transform")
    for rules, us in rulesets[5:7] + rulesets[-2:]:
        ctx.sample({"define": define_text(rules), "uses": [use_text(u) for u in us[:4]]})
    return ctx.finish(min_evals=1000, min_nontrivial=100)


def datum_as_value(d):
    """driver datum json -> the value json that quoting it would give (vectors immutable)"""
    if "v" in d:
        return {"v": [datum_as_value(x) for x in d["v"]], "m": False, "a": 0}
    if "l" in d:
        return {"l": [datum_as_value(x) for x in d["l"]], "t": datum_as_value(d["t"]) if d.get("t") else None}
    if "rl" in d:
        return {"r": None}
    return d


def replay(path):
    data = json.load(open(path))
    r = data["replay"]
    rec = core.run_jobs([{"id": "r", "interps": [{"stdlib": True}], "steps": [{"src": r["define"]}, {"src": r["use"], "disp": True}]}], "dev", shards=1, timeout=60)[0]
    print(r["define"]); print(r["use"]); print(json.dumps(rec["steps"][1])[:800]); print("expected:", data["violation"].get("expected"))
    return 0

"""C13 - libraries are encapsulated and loaded once per program.
Monitor: random library/program scenarios (stateful counter library reached through several import paths, libraries importing
libraries, exports with and without rename, unexported helpers, importer definitions colliding with library internals and
with the library's own imports, libraries referring to names only the importer defines) are run on the real interpreter;
per-form results are judged by a reference module system (one instance per program, environment = own imports + own
definitions)."""
import json
from . import core, diff
from .sx import S, show, skeleton
from .ref_scheme import OutOfModel, Strategy

PID = "C13"
LEVEL = "exploration"


def parse(t):
    from . import sxread
    return sxread.parse_one(t)


def scenario(rng):
    st = rng.choice(["n", "count", "total"])
    hp = rng.choice(["bump", "step", "helper"])
    nx, pk = "next!", rng.choice(["peek", "current"])
    pk_internal = "peek-internal" if rng.random() < 0.5 else pk
    start = rng.randint(0, 5)
    inc = rng.randint(1, 3)
    libs = []
    exp_pk = "(rename %s %s)" % (pk_internal, pk) if pk_internal != pk else pk
    # sometimes one internal binding is exported under two external names
    alias = rng.choice(["", "", " (rename next! counter-next!)", " (rename reset! restart!)"])
    libs.append(("(define-library (lib counter) (import (scheme base)) (export %s %s reset!" + alias + ") (begin (define %s %d) (define (%s k) (+ k %d)) "
                 "(define (%s) (set! %s (%s %s)) %s) (define (%s) %s) (define (reset! v) (set! %s v) %s)))")
                % (nx, exp_pk, st, start, hp, inc, nx, st, hp, st, st, pk_internal, st, st, st))
    have = {"counter": [nx, pk, "reset!"] + ([alias.split()[2].rstrip(")")] if alias else [])}
    # user1 imports the counter, possibly through an import set
    path1 = rng.choice(["(lib counter)", "(prefix (lib counter) k-)", "(rename (lib counter) (next! advance!))", "(only (lib counter) next!)"])
    call1 = {"(lib counter)": "next!", "(prefix (lib counter) k-)": "k-next!", "(rename (lib counter) (next! advance!))": "advance!", "(only (lib counter) next!)": "next!"}[path1]
    # a library that exports a MACRO; (lib user) may import it. The program never imports it: its own procedure of that name stays a procedure
    exports_macro = rng.random() < 0.3
    if exports_macro:
        libs.append("(define-library (lib mac) (import (scheme base)) (export mtwice) (begin (define-syntax mtwice (syntax-rules () ((mtwice e) (list e e))))))")
    first = rng.random() < 0.5       # the counter (and not (scheme base)) may be the first import set of the user libraries
    imps = ("%s (scheme base)" if first else "(scheme base) %s") % path1 + (" (lib mac)" if exports_macro else "")
    libs.append("(define-library (lib user) (import %s) (export use1! (rename twice double)) (begin (define (%s k) (* k 100)) (define (use1!) (list 'u1 (%s))) "
                "(define (twice x) (%s x))))" % (imps, hp, call1, hp))
    # a library that assigns names it imported from the counter (and never uses them itself): nobody else's view of the counter changes
    libs.append("(define-library (lib clobber) (import (lib counter) (scheme base)) (export clobber!) (begin (define (clobber!) (set! next! (lambda () 'clobbered)) (set! reset! 5) 'done)))")
    have["user"] = ["use1!", "double"]
    have["clobber"] = ["clobber!"]
    if rng.random() < 0.5:
        # a library whose BODY advances the counter when it is instantiated (once per program, whichever declaration reaches it first - also one that fails)
        libs.append("(define-library (lib boot) (import (scheme base) (lib counter)) (export booted) (begin (define booted (list 'booted (next!)))))")
        have["boot"] = ["booted"]
    if rng.random() < 0.7:
        order2 = "(lib counter) (scheme base) (lib user)" if first else "(scheme base) (lib user) (lib counter)"
        libs.append("(define-library (lib user two) (import %s) (export use2!) (begin (define (use2!) (list 'u2 (car (cdr (use1!))) (next!)))))" % order2)
        have["user two"] = ["use2!"]
    if rng.random() < 0.6:
        libs.append("(define-library (lib leaky) (import (scheme base)) (export leak get-plus) (begin (define (leak) importer-var) (define (get-plus a b) (+ a b))))")
        have["leaky"] = ["leak", "get-plus"]
    if rng.random() < 0.5:
        # the library keeps macros to itself whose keywords are names the program gets from other libraries or defines itself
        macros = "".join("(define-syntax %s (syntax-rules () ((%s) 'macro-local-to-plain) ((%s a) 'macro-local-to-plain) ((%s a b) 'macro-local-to-plain))) " % (m, m, m, m) for m in rng.sample([nx, pk, "reset!", "use1!", "double", hp, st, "importer-var", "get-plus"], rng.randint(0, 3)))
        libs.append("(define-library (lib plain) (import (scheme base)) (export k (rename inner outer)) (begin %s(define k %d) (define (inner x) (list x k))))" % (macros, rng.randint(10, 99)))
        have["plain"] = ["k", "outer"]
    if rng.random() < 0.6:
        # renaming exports whose external names collide with internal names of other exported bindings (chains and swaps)
        k = rng.random()
        if k < 0.5:
            libs.append("(define-library (lib ren) (import (scheme base)) (export (rename low high) (rename high top) get-low) (begin (define low %d) (define high %d) (define (get-low) (list low high))))"
                        % (rng.randint(1, 9), rng.randint(10, 19)))
            have["ren"] = ["high", "top", "get-low"]
        else:
            libs.append("(define-library (lib ren) (import (scheme base)) (export (rename ra rb) (rename rb ra) (rename rc rd) rboth) (begin (define ra 'was-a) (define rb 'was-b) (define rc 'was-c) (define (rboth) (list ra rb rc))))")
            have["ren"] = ["ra", "rb", "rd", "rboth"]
    if rng.random() < 0.3:
        # a chain of 3-8 facade libraries, each importing the previous one: the last one still drives the one counter instance
        k = rng.randint(3, 8)
        for i in range(1, k + 1):
            prev = "(lib counter)" if i == 1 else "(lib hop%d)" % (i - 1)
            call = "(next!)" if i == 1 else "(hop%d)" % (i - 1)
            libs.append("(define-library (lib hop%d) (import (scheme base) %s) (export hop%d) (begin (define (hop%d) %s)))" % (i, prev, i, i, call))
        have["hop%d" % k] = ["hop%d" % k]
        hop = "hop%d" % k
    else:
        hop = None
    # the program's imports
    imports = ["(scheme base)"]
    avail = {}
    for lib, names in have.items():
        if lib == "counter" and rng.random() < 0.25:
            continue      # counter reached only through the user libraries
        if rng.random() < 0.15 and lib != "user":
            continue
        style = rng.random()
        lname = "(lib %s)" % lib
        if style < 0.55:
            imports.append(lname)
            for n in names:
                avail[n] = n
        elif style < 0.8:
            pre = rng.choice(["p-", "q/"])
            imports.append("(prefix %s %s)" % (lname, pre))
            for n in names:
                avail[n] = pre + n
        else:
            n0 = names[0]
            imports.append("(rename %s (%s my-%s))" % (lname, n0, n0))
            for n in names:
                avail[n] = ("my-" + n) if n == n0 else n
    # the import sets are spread over 1-3 declarations; a declaration that fails (missing library, import cycle) may stand between them,
    # and the counter may be imported once more, through another import set, after it
    forms = []
    if rng.random() < 0.6:
        # any order: the counter is then not always the first library to be instantiated (a library that has nothing to do with it may come first)
        rest = imports[1:]
        rng.shuffle(rest)
        imports = imports[:1] + rest
    cuts = sorted(rng.sample(range(1, len(imports)), min(len(imports) - 1, rng.choice([0, 0, 1, 2])))) if len(imports) > 1 else []
    groups = [imports[a:b] for a, b in zip([0] + cuts, cuts + [len(imports)])]
    failing = None
    if rng.random() < 0.35:
        failing = rng.choice(["(import (lib nope))", "(import (lib cyc a))", "(import (only (lib nope) x))",
                              # import sets that succeed (and instantiate their libraries) stand before the one that fails: nothing is bound, the instances stay
                              "(import (lib counter) (lib nope))", "(import (lib user) (only (lib nope) x))", "(import (prefix (lib clobber) w-) (lib counter) (lib nope))"]
                             + (["(import (lib boot) (lib nope))", "(import (lib boot) (lib cyc a))"] if "boot" in have else []))
        if "cyc" in failing:
            libs.append("(define-library (lib cyc a) (import (scheme base) (lib counter) (lib cyc b)) (export ca) (begin (define ca 1)))")
            libs.append("(define-library (lib cyc b) (import (scheme base) (lib cyc a)) (export cb) (begin (define cb 2)))")
    at = rng.randrange(len(groups) + 1)
    for gi, g in enumerate(groups):
        if failing and gi == at:
            forms.append(failing)
        forms.append("(import %s)" % " ".join(g))
    if failing and at == len(groups):
        forms.append(failing)
    if rng.random() < 0.4:
        forms.append("(import (prefix (lib counter) z-))")
        for n in have["counter"]:
            avail.setdefault("z:" + n, "z-" + n)
    elif rng.random() < 0.3:
        forms.append("(import (lib user))")
    u = [1000]

    def uniq():
        u[0] += 1
        return u[0]
    steps = rng.randint(8, 18)
    for _ in range(steps):
        c = rng.random()
        if c < 0.4:
            calls = []
            for base, args in ((hop or "next!", ""), ("clobber!", ""), ("next!", ""), ("z:next!", ""), ("counter-next!", ""), ("z:counter-next!", ""), ("z:" + pk, ""), ("use1!", ""), ("use2!", ""), (pk, ""), ("double", " 3"), ("outer", " 7"), ("get-plus", " 20 5"), ("get-low", ""), ("rboth", "")):
                if base in avail:
                    calls.append("(%s%s)" % (avail[base], args))
            if calls:
                forms.append(rng.choice(calls))
        elif c < 0.5 and ("reset!" in avail or "restart!" in avail):
            forms.append("(%s %d)" % (avail[rng.choice([k for k in ("reset!", "restart!", "z:restart!", "z:reset!") if k in avail])], rng.randint(0, 50)))
        elif c < 0.62:
            # definitions colliding with library internals / with the library's imports
            forms.append(rng.choice(["(define %s %d)" % (st, uniq()), "(define (%s k) %d)" % (hp, uniq()), "(define %s %d)" % (pk_internal, uniq()),
                                     "(define + -)", "(define (car x) 'importer-car)", "(define * list)", "(define importer-var %d)" % uniq(), "(define set-marker 1)",
                                     "(define (mtwice x) (* 2 x))"]))
            if "mtwice" in forms[-1] or rng.random() < 0.1:
                forms.append(rng.choice(["(mtwice 21)", "(list (mtwice 4))"]) if any("(define (mtwice" in f for f in forms) else "(+ 1 1)")
        elif c < 0.72:
            # redefinition / assignment of an imported name in the importer
            if avail:
                base = rng.choice(list(avail))
                forms.append(rng.choice(["(define (%s . args) 'mine-%d)" % (avail[base], uniq()), "(set! %s (lambda args 'set-%d))" % (avail[base], uniq())]))
        elif c < 0.84:
            # references to names the importer must not see unless it defined them
            forms.append(rng.choice([st, hp, pk_internal, "(%s 1)" % hp, "twice", "inner", "use1!" if "use1!" not in avail.values() else st, "next!" if "next!" not in avail.values() else hp]))
        elif c < 0.92 and "leak" in avail:
            forms.append("(%s)" % avail["leak"])
        else:
            for nm in ("high", "top", "ra", "rb", "rd", "k", "booted"):
                if nm in avail and rng.random() < 0.5:
                    forms.append(avail[nm])
            forms.append(rng.choice(["(+ 2 3)", "(car '(1 2))", "(* 2 3)", "(list %s)" % " ".join(sorted(set(avail.values()))[:0] or ["1"])]))
    return libs, forms


def run(tier, seed):
    ctx = core.Ctx(PID, tier, seed, LEVEL)
    n = 2000 if tier == "quick" else core.share(120000)
    legs = ["dev"] if tier == "quick" else ["dev", "release"]
    ctx.rule = ("random scenarios of 2-5 libraries (a stateful counter library with renamed/unexported internals, libraries importing it through different import sets, a library "
                "referring to a name only the importer defines, a constant library) and a program importing them directly / prefixed / renamed / only indirectly, then 8-18 forms: "
                "calls through every import path, definitions colliding with library internals and with (scheme base) names, redefinition and assignment of imported names, "
                "references to unexported names. distinct_nontrivial = distinct scenario skeletons that agreed with the module model and read the counter through >= 2 paths")
    ctx.assumptions = ["exports are procedures and constants (whether an exported variable stays live after the library assigns it is not stated by C13)",
                       "programs import at their start, as Ruschm requires"]
    scen = []
    while len(scen) < n:
        libs, forms = scenario(ctx.rng)
        L = [parse(t) for t in libs]
        F = [parse(t) for t in forms]
        try:
            diff.model_run(F, Strategy(), libs=L, stdlib=False)
        except (OutOfModel, RecursionError):
            ctx.count("generated_discarded"); continue
        scen.append((libs, L, forms, F))
    import os, shutil, tempfile
    root = tempfile.mkdtemp(prefix="c13-", dir=core.TMP)
    for leg in legs:
        jobs = []
        for i, (libs, L, forms, F) in enumerate(scen):
            mode = i % 3
            if mode == 0:
                # all libraries registered before the program starts
                spec = {"stdlib": False, "libs": [{"name": [x.name for x in l[1]], "src": t} for l, t in zip(L, libs)]}
                jobs.append(diff.job_for(F, "s%d" % i, interp=spec))
            elif mode == 1:
                # libraries as files next to the program (loaded lazily, in the order the imports reach them)
                d = os.path.join(root, "%s-%d" % (leg, i))
                for l, t in zip(L, libs):
                    parts = [x.name for x in l[1]]
                    os.makedirs(os.path.join(d, *parts[:-1]), exist_ok=True)
                    open(os.path.join(d, *parts[:-1], parts[-1] + ".sld"), "w").write(t)
                jobs.append(diff.job_for(F, "s%d" % i, interp={"stdlib": False, "progdir": d}))
            else:
                # an unrelated library is registered through the API between the forms of the program
                spec = {"stdlib": False, "libs": [{"name": [x.name for x in l[1]], "src": t} for l, t in zip(L, libs)]}
                job = diff.job_for(F, "s%d" % i, interp=spec)
                extra = {"register": {"name": ["late", "lib%d" % i], "src": "(define-library (late lib%d) (export late-v) (begin (define late-v 1)))" % i}}
                pos = 1 + (i // 3) % max(1, len(F) - 1)
                nimp = 0
                while nimp < len(forms) and forms[nimp].startswith("(import"):
                    nimp += 1
                others = [(l, t) for l, t in zip(L, libs) if [x.name for x in l[1]] not in (["lib", "counter"], ["lib", "boot"]) and "cyc" not in t]     # (not the library whose body has an effect: registering it again lets the body run again)
                if nimp >= 2 and others and (i // 3) % 2 == 0:
                    # ... or a library that IS already registered (not the counter) is registered once more, with the same source, between two of
                    # the program's import declarations: nothing a program can observe changes
                    l, t = others[(i // 6) % len(others)]
                    extra = {"register": {"name": [x.name for x in l[1]], "src": t}}
                    pos = 1 + (i // 12) % (nimp - 1)
                job["steps"].insert(pos, extra)
                job["_extra_at"] = pos
                jobs.append(job)
        recs = core.run_jobs(jobs, leg, timeout=600 if tier == "quick" else 3000, tag="c13")
        for job, rec in zip(jobs, recs):
            if "_extra_at" in job and rec and "steps" in rec:
                x = rec["steps"].pop(job["_extra_at"])
                if "ok" not in x:
                    ctx.violation({"what": "registering an unrelated library failed", "kind": "register", "observed": x}, {"job": job["id"]})
        for (libs, L, forms, F), rec in zip(scen, recs):
            ctx.evaluations += 1
            if rec is None or "steps" not in rec:
                if rec and "abort" in rec:
                    ctx.violation({"what": "process died in a library scenario", "kind": "abort"}, {"libs": libs, "forms": forms, "abort": rec["abort"]})
                else:
                    ctx.inconclusive_cases += 1
                continue
            if rec.get("setup"):
                ctx.violation({"what": "libraries could not be registered", "kind": "setup", "observed": rec["setup"]}, {"libs": libs}); continue
            verdict, detail = diff.compare_history(F, rec["steps"], libs=L, stdlib=False)
            ctx.count("forms_evaluated", len(F))
            if verdict == "ok":
                ctx.count("scenarios_agree")
                paths = sum(1 for f in forms if not f.startswith("(import") and ("next!" in f or "use1!" in f or "use2!" in f))
                if paths >= 2:
                    ctx.nontriv(" ".join(skeleton(f) for f in F) + "|" + str(len(libs)))
            elif verdict in ("oom", "fuel"):
                ctx.inconclusive_cases += 1
            else:
                ctx.violation({"what": "library scenario disagrees with the reference module system", "kind": "modules", "why": detail["why"][:300], "form": detail["form"][:200],
                               "leg": leg, "dedupe": detail["why"][:40]}, {"libs": libs, "forms": forms, "detail": detail, "leg": leg})
        ctx.legs.append(leg)
    shutil.rmtree(root, ignore_errors=True)
    ctx.observed["modes"] = "registered sources / files beside the program / a late registration through the API, one third each"
    ctx.sample({"libs": scen[0][0], "program": scen[0][2]})
    ctx.sample({"libs": scen[1][0], "program": scen[1][2]})
    return ctx.finish(min_evals=200, min_nontrivial=50)


def replay(path):
    data = json.load(open(path))
    r = data["replay"]
    L = [parse(t) for t in r["libs"]]; F = [parse(t) for t in r["forms"]]
    spec = {"stdlib": False, "libs": [{"name": [x.name for x in l[1]], "src": t} for l, t in zip(L, r["libs"])]}
    rec = core.run_jobs([diff.job_for(F, "r", interp=spec)], r.get("leg", "dev"), shards=1, timeout=120)[0]
    verdict, detail = diff.compare_history(F, rec["steps"], libs=L, stdlib=False)
    print("\n".join(r["libs"])); print("\n".join(r["forms"])); print(verdict, json.dumps(detail, default=str)[:1500])
    return 0 if verdict == "ok" else 1

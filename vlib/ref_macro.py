"""Reference syntax-rules matcher / instantiator (non-hygienic), for exactly the class C04 names: keyword spelled out,
proper-list and vector patterns of any depth, at most one ellipsis per (sub)list in final position, ellipsis depth 1,
>= 1 item per ellipsis, ellipsis sub-templates mentioning only ellipsis variables (and constants)."""
from fractions import Fraction
from .sx import Sym, Char, Real, Vec, Dot

ELL = Sym("...")
UND = Sym("_")


class NoMatch(Exception):
    pass


def datum_eq(a, b):
    if type(a) != type(b):
        if isinstance(a, (int, Fraction)) and isinstance(b, (int, Fraction)) and not isinstance(a, bool) and not isinstance(b, bool):
            return a == b
        return False
    if isinstance(a, list):
        return len(a) == len(b) and all(datum_eq(x, y) for x, y in zip(a, b))
    if isinstance(a, Vec):
        return datum_eq(a.items, b.items)
    if isinstance(a, Dot):
        return datum_eq(a.items, b.items) and datum_eq(a.tail, b.tail)
    return a == b


def match(p, d, lits, b, under=False):
    """match pattern p against datum d, filling bindings b: name -> ('one', datum) | ('many', [datum])"""
    if isinstance(p, Sym):
        if p == UND:
            return True
        if p.name in lits:
            return isinstance(d, Sym) and d.name == p.name
        if under:
            b.setdefault(p.name, ("many", []))[1].append(d)
        else:
            b[p.name] = ("one", d)
        return True
    if isinstance(p, list):
        if not isinstance(d, list):
            return False
        return match_seq(p, d, lits, b, under)
    if isinstance(p, Vec):
        if not isinstance(d, Vec):
            return False
        return match_seq(p.items, d.items, lits, b, under)
    return datum_eq(p, d)


def match_seq(ps, ds, lits, b, under):
    if ps and ps[-1] == ELL:
        fixed, rep = ps[:-2], ps[-2]
        if len(ds) < len(fixed) + 1:          # one or more items per ellipsis (the supported class)
            return False
        for p, d in zip(fixed, ds):
            if not match(p, d, lits, b, under):
                return False
        for d in ds[len(fixed):]:
            if not match(rep, d, lits, b, True):
                return False
        return True
    if len(ps) != len(ds):
        return False
    return all(match(p, d, lits, b, under) for p, d in zip(ps, ds))


def instantiate(t, b):
    if isinstance(t, Sym):
        if t.name in b:
            kind, v = b[t.name]
            if kind == "one":
                return v
            raise ValueError("ellipsis variable %s used without ellipsis" % t.name)
        return t
    if isinstance(t, list):
        return inst_seq(t, b)
    if isinstance(t, Vec):
        return Vec(inst_seq(t.items, b))
    if isinstance(t, Dot):
        return Dot(inst_seq(t.items, b), instantiate(t.tail, b))
    return t


def ell_vars(t, b):
    if isinstance(t, Sym):
        return [t.name] if t.name in b and b[t.name][0] == "many" else []
    if isinstance(t, list):
        return [v for x in t for v in ell_vars(x, b)]
    if isinstance(t, Vec):
        return [v for x in t.items for v in ell_vars(x, b)]
    if isinstance(t, Dot):
        return [v for x in t.items for v in ell_vars(x, b)] + ell_vars(t.tail, b)
    return []


def inst_seq(ts, b):
    out = []
    i = 0
    while i < len(ts):
        t = ts[i]
        if i + 1 < len(ts) and ts[i + 1] == ELL:
            vs = ell_vars(t, b)
            if not vs:
                raise ValueError("ellipsis sub-template without ellipsis variable")
            n = len(b[vs[0]][1])
            for k in range(n):
                bk = dict(b)
                for v in vs:
                    bk[v] = ("one", b[v][1][k])
                out.append(instantiate(t, bk))
            i += 2
        else:
            out.append(instantiate(t, b)); i += 1
    return out


def expand(rules, lits, use):
    """rules: [(pattern args list (keyword stripped), template)]; use: list of argument data (keyword stripped).
    Returns (rule index, datum); raises NoMatch"""
    for i, (p, t) in enumerate(rules):
        b = {}
        if match_seq(p, use, lits, b, False):
            return i, instantiate(t, b)
    raise NoMatch()

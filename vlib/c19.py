"""C19 - interpreter instances are isolated from one another.
Monitor (differential, no model needed): programs A and B with colliding names are interleaved form by form over two
instances on one thread; B's per-form records must equal those of B run alone on a fresh thread; a third instance is created
after every step of A and must come up; the shared bundled macro table is snapshotted around every step of A."""
import json
from . import core, diff, gen_core, gen_derived, c03
from .sx import S, show, skeleton
from .ref_scheme import OutOfModel, Strategy

PID = "C19"
LEVEL = "exploration"

HOSTILE = [
    "(define-syntax cond (syntax-rules () ((cond clause ...) 'hijacked-cond)))",
    "(define-syntax let (syntax-rules () ((let bindings body ...) 'hijacked-let)))",
    "(define-syntax or (syntax-rules () ((or a ...) 'hijacked-or)))",
    "(define-syntax and (syntax-rules () ((and a ...) 'hijacked-and)))",
    "(define-syntax when (syntax-rules () ((when t b ...) 'hijacked-when)))",
    "(define-syntax begin (syntax-rules () ((begin e ...) 'hijacked-begin)))",
    "(define-syntax case (syntax-rules () ((case k c ...) 'hijacked-case)))",
    "(define-syntax my-mac (syntax-rules () ((my-mac a b) (list 'A a b))))",
    "(define-syntax swap! (syntax-rules () ((swap! a b) ((lambda (tmp) (set! a b) (set! b tmp)) a))))",
    "(define (when x) 'a-when)", "(define and 5)", "(define let 1)", "(define (cond . x) x)", "(define or list)", "(define (unless . x) 'a-unless)", "(define begin 0)", "(define case 'c)",
    "(define + -)", "(define (car x) 'a-car)", "(set! cons list)", "(define list vector)", "(define tick-free 1)",
    "(import (no such library))", "(import (only (scheme base) car))", "(car '())", "(undefined-procedure 1)", "(vector-ref (vector) 0)", "(/ 1 0)",
    "(define (map f l) 'a-map)", "(define apply 5)", "(my-mac 1 2)", "(cond (#t 1))", "(let ((q 1)) q)",
    # top-level VARIABLES named like the macros that B defines (and like A's own): B's define-syntax of those names is untouched
    "(define my-mac 5)", "(define (twice! x) (list x x))", "(define (swap! a b) (list b a))", "(define twice 2)", "(define (local-mac . r) r)",
    # parameters and local variables named like the bundled keywords, in accepted and in REJECTED forms (no body, a definition after an expression, a malformed body)
    "(lambda (when) )", "(define (zk cond) (define zx 1))", "((lambda (unless) unless (define zy 2)) 1)", "(lambda (case . let) (if))", "(define (zk and or) (lambda (begin)))",
    "(let ((unless 5) (when 6)) (list unless when))", "((lambda (cond . case) (list cond case)) 1 2 3)", "(define (zk2 let*) let*)", "(zk2 4)", "(let* ((begin 1) (let begin)) )",
    "(define (zk3 or) (or 1 2) (define-syntax or (syntax-rules () ((or a) a))))", "(lambda (let) (let ((a 1)) a) (define q 1))", "(let ((cond 1)) (define-syntax when (syntax-rules () ((when a) a))) cond)",
    # a vector that contains itself is displayed, the cycle is broken and the vector dropped
    "((lambda () (define c (vector 1 2)) (vector-set! c 0 c) (display c) (vector-set! c 0 0) 'gone))",
    "((lambda () (define a (vector 0)) (define b (vector a a)) (vector-set! a 0 b) (display (list a b)) (vector-set! a 0 1) 'gone))",
]
# B prints freshly made vectors (mutable ones, nested, shared)
B_DISPLAYS = ["(display (vector 7 8 9))", "(display (list (vector 1) (make-vector 2 'x)))", "(display (let ((r (vector 1 2))) (vector r r (vector r))))", "(display (make-vector 3 (vector)))"]
# library sources registered with instance A only: macros before and inside the define-library form, named like procedures that B defines
A_LIBS = [
    {"name": ["util", "counter"], "src": "(define-syntax twice (syntax-rules () ((twice e) (begin e e)))) (define-library (util counter) (import (scheme base)) (export inc) "
                                         "(begin (define-syntax local-mac (syntax-rules () ((local-mac e) 'a-local))) (define (inc x) (+ x 1))))"},
    {"name": ["util", "wrap"], "src": "(define-syntax wrap (syntax-rules () ((wrap e) (list 'wrapped-by-a e)))) (define-syntax id (syntax-rules () ((id e) 'a-id))) "
                                      "(define-library (util wrap) (import (scheme base)) (export w) (begin (define (w x) (wrap x))))"},
]
# library FILES beside A's program (found through the program directory): macros inside the library named like procedures of B, and like procedures
# that the bundled (scheme base) source itself uses
A_FILES = {
    "filelib": "(define-library (util filelib) (import (scheme base)) (export finc)\n  (begin (define-syntax twice (syntax-rules () ((twice e) 'a-file-twice)))\n"
               "    (define-syntax wrap (syntax-rules () ((wrap e) 'a-file-wrap)))\n    (define-syntax local-mac (syntax-rules () ((local-mac e) 'a-file-local)))\n"
               "    (define-syntax id (syntax-rules () ((id e) 'a-file-id)))\n    (define (finc x) (+ x 1))))\n",
    "filelib2": "(define-library (util filelib2) (import (scheme base)) (export fdec)\n  (begin (define-syntax pair? (syntax-rules () ((pair? e) 'a-file-pair)))\n"
                "    (define-syntax null? (syntax-rules () ((null? e) #f)))\n    (define-syntax car (syntax-rules () ((car e) 'a-file-car)))\n    (define (fdec x) (- x 1))))\n",
    # a source with TWO libraries; the one A asks for is the second and has macros of its own
    "filelib3": "(define-library (util other) (export o) (begin (define o 1)))\n(define-library (util filelib3) (import (scheme base)) (export fmul)\n"
                "  (begin (define-syntax twice (syntax-rules () ((twice e) 'a-file3-twice)))\n    (define-syntax wrap (syntax-rules () ((wrap e) 'a-file3-wrap)))\n"
                "    (define-syntax id (syntax-rules () ((id e) 'a-file3-id)))\n    (define-syntax list-tail (syntax-rules () ((list-tail a b) 'a-file3-lt)))\n    (define (fmul x) (* x 2))))\n",
}
B_PROCS = ["(define (twice f) (lambda (x) (f (f x))))", "((twice (lambda (x) (+ x 1))) 5)", "(define (local-mac x) (list 'b-local x))", "(local-mac 3)",
           "(define (wrap x) (list 'b-wrap x))", "(wrap 4)", "(define (id x) x)", "(id 9)"]
# B registers its own, different sources under the library names that A uses
B_LIBS = [
    {"name": ["util", "counter"], "src": "(define-library (util counter) (import (scheme base)) (export inc limit) (begin (define limit 99) (define (inc x) (+ x 100))))"},
    {"name": ["util", "wrap"], "src": "(define-library (util wrap) (import (scheme base)) (export w) (begin (define (w x) (list 'wrapped-by-b x))))"},
]
B_MACROS = ["(define-syntax my-mac (syntax-rules () ((my-mac a b) (list 'B b a))))", "(my-mac 1 2)",
            "(define-syntax twice! (syntax-rules () ((twice! e) ((lambda () e e)))))", "(twice! (tick 500 7))"]


def program(rng, kind):
    """a list of top-level form texts"""
    if kind == "core":
        g = gen_core.G(rng, ticks=True, max_depth=4)
        return [show(gen_core.render(f, rng.choice(["plain", "lambda"]))) for f in g.program()]
    if kind == "derived":
        g = gen_derived.DG(rng)
        return [show(f) for f in g.program(rng.randint(2, 4))]
    if kind == "store":
        return [show(f) for f in c03.Hist(rng).build(rng.randint(15, 30))]
    raise ValueError(kind)


def usable(forms_text):
    from . import sxread
    try:
        forms = [sxread.parse_one(t) for t in forms_text]
        diff.model_run(forms, Strategy())
        return True
    except (OutOfModel, RecursionError, Exception):
        return False


def essential(step):
    """the observable part of a step record"""
    return {k: step.get(k) for k in ("ok", "err", "panic", "trace", "out", "fuel_exhausted") if k in step}


def run(tier, seed):
    ctx = core.Ctx(PID, tier, seed, LEVEL)
    rng = ctx.rng
    npairs = 600 if tier == "quick" else core.share(12000)
    nint = 3
    ctx.rule = ("random program pairs A,B from the core / derived-form / store-history generators (identical names on purpose); A additionally defines macros (also named like B's), "
                "redefines cond let or and when begin case and builtins, fails imports and raises errors; %d random interleavings per pair over two instances on one thread, a third "
                "instance created after every step of A, the bundled macro table snapshotted around A's steps. distinct_nontrivial = distinct (A hostile forms, B skeleton) pairs "
                "for which B's records equalled B run alone" % nint)
    ctx.assumptions = ["differential oracle: B alone on a fresh thread is the reference", "both instances are stdlib interpreters with the driver's tick native"]
    pairs = []
    while len(pairs) < npairs:
        kb = rng.choice(["core", "derived", "derived", "store"])
        B = program(rng, kb)
        if not usable(B):
            continue
        if rng.random() < 0.4:
            pos = rng.randrange(len(B) + 1)
            B = B[:pos] + B_MACROS[:2] + B[pos:] + (B_MACROS[2:] if rng.random() < 0.5 else [])
        if rng.random() < 0.35:
            pos = rng.randrange(len(B) + 1)
            k = rng.choice([0, 2, 4, 6])
            B = B[:pos] + B_PROCS[k:k + 2] + B[pos:]
        for _ in range(rng.randint(0, 3)):
            B.insert(rng.randrange(len(B) + 1), rng.choice(B_DISPLAYS))
        A = program(rng, rng.choice(["core", "derived", "store"]))
        for _ in range(rng.randint(1, 5)):
            A.insert(rng.randrange(len(A) + 1), rng.choice(HOSTILE))
        pairs.append((A, B))
    spec = {"stdlib": True}
    import os, tempfile, shutil
    fdir = tempfile.mkdtemp(prefix="c19-", dir=core.TMP)
    os.makedirs(os.path.join(fdir, "util"))
    for nm, src in A_FILES.items():
        open(os.path.join(fdir, "util", nm + ".sld"), "w").write(src)
    # a program FILE for A whose top-level forms define macros named like B's procedures
    open(os.path.join(fdir, "macros.scm"), "w").write("(define-syntax twice (syntax-rules () ((twice e) 'a-file-macro)))\n(define-syntax wrap (syntax-rules () ((wrap e) 'a-file-macro)))\n"
                                                      "(define-syntax local-mac (syntax-rules () ((local-mac e) 'a-file-macro)))\n(define-syntax id (syntax-rules () ((id e) 'a-file-macro)))\n(twice 1)\n")
    # B's own program directory: a library with the NAME of A's file library and another definition
    fdir2 = tempfile.mkdtemp(prefix="c19b-", dir=core.TMP)
    os.makedirs(os.path.join(fdir2, "util"))
    for nm in ("filelib", "filelib2"):
        open(os.path.join(fdir2, "util", nm + ".sld"), "w").write("(define-library (util %s) (import (scheme base)) (export finc fdec) (begin (define (finc x) (+ x 100)) (define (fdec x) (- x 100))))\n" % nm)
    jobs, meta = [], []
    for pi, (A, B) in enumerate(pairs):
        # instance A (and the instances created later) sometimes carry registered library sources with macros in them
        aspec = dict(spec, libs=A_LIBS) if pi % 2 else spec
        if pi % 3 == 0:
            # ... or find library files beside their program, which A imports first
            aspec = dict(aspec, progdir=fdir)
            which = "filelib3" if pi % 9 == 0 else ("filelib" if pi % 2 else "filelib2")
            A = ["(import (util %s))" % which, {"filelib": "(finc 1)", "filelib2": "(fdec 1)", "filelib3": "(fmul 1)"}[which]] + A
            pairs[pi] = (A, B)
        bspec = dict(spec, libs=B_LIBS) if pi % 4 in (1, 2) else spec
        b_file_lib = (pi % 3 == 0 and pi % 4 == 0)
        if b_file_lib:
            bspec = dict(bspec, progdir=fdir2)
        if pi % 5 == 1:
            A = A[:1] + [("file", os.path.join(fdir, "macros.scm"))] + A[1:]
            pairs[pi] = (A, B)
        bsteps = lambda it: ([{"it": it, "src": "(import (util filelib) (util filelib2))"}, {"it": it, "src": "(list (finc 1) (fdec 1))"}] if b_file_lib else []) + ([{"it": it, "import": [{"lib": ["util", "counter"]}, {"lib": ["util", "wrap"]}], "fresh_env": False}, {"it": it, "src": "(list (inc 5) limit (w 1))"}] if "libs" in bspec else []) \
            + [{"it": it, "src": t} for t in B]
        jobs.append({"id": "alone-%d" % pi, "interps": [bspec], "steps": bsteps(0), "fuel": 100000}); meta.append(("alone", pi, None))
        for k in range(nint):
            # random merge of A and B
            bs = bsteps(1)
            order = [0] * len(A) + [1] * len(bs)
            rng.shuffle(order)
            ia = ib = 0
            steps, bpos = [], []
            extra = 0
            for w in order:
                if w == 0:
                    steps.append({"syntax_table": True})
                    steps.append({"it": 0, "src": A[ia]} if isinstance(A[ia], str) else {"it": 0, "file": A[ia][1]}); ia += 1
                    steps.append({"syntax_table": True})
                    steps.append({"new": aspec}); extra += 1
                else:
                    bpos.append(len(steps))
                    steps.append(bs[ib]); ib += 1
            jobs.append({"id": "mix-%d-%d" % (pi, k), "interps": [aspec, bspec], "steps": steps, "fuel": 100000}); meta.append(("mix", pi, bpos))
    recs = core.run_jobs(jobs, "dev", timeout=900 if tier == "quick" else 3000, tag="c19")
    alone = {}
    for (kind, pi, bpos), rec in zip(meta, recs):
        if kind == "alone":
            alone[pi] = rec
    for (kind, pi, bpos), rec, job in zip(meta, recs, jobs):
        if kind != "mix":
            continue
        A, B = pairs[pi]
        ctx.evaluations += 1
        ref = alone.get(pi)
        if rec is None or "steps" not in rec or ref is None or "steps" not in ref:
            if rec and "abort" in rec:
                ctx.violation({"what": "process died while two instances were interleaved", "kind": "abort", "abort": rec["abort"]}, {"A": A, "B": B})
            else:
                ctx.inconclusive_cases += 1
            continue
        st = rec["steps"]
        ok = True
        # the bundled macro table must not change; new instances must come up
        changed_at = None
        for i, s in enumerate(job["steps"]):
            if "syntax_table" in s and i + 2 < len(st) and "syntax_table" in job["steps"][i + 2] and ("src" in job["steps"][i + 1] or "file" in job["steps"][i + 1]):
                if st[i].get("ok") != st[i + 2].get("ok") and changed_at is None:
                    changed_at = job["steps"][i + 1].get("src") or ("file " + job["steps"][i + 1]["file"])
            if "new" in s:
                ctx.count("instances_created")
                if "ok" not in st[i]:
                    ok = False
                    prev = next((job["steps"][j]["src"] for j in range(i - 1, -1, -1) if "src" in job["steps"][j] and job["steps"][j].get("it") == 0), None)
                    ctx.violation({"what": "creating a new interpreter instance failed after another instance evaluated a form", "kind": "new-instance", "after": prev,
                                   "observed": st[i], "dedupe": "new|" + str((st[i].get("panic") or {}).get("site", st[i].get("err", {}).get("kind")))},
                                  {"A": A, "B": B, "steps": [s.get("src", s) for s in job["steps"][:i + 1]]})
        for k, p in enumerate(bpos):
            got, want = essential(st[p]), essential(ref["steps"][k])
            ctx.count("b_forms_compared")
            if got != want:
                ok = False
                a_before = [s["src"] for s in job["steps"][:p] if s.get("it") == 0 and "src" in s]
                b_all = [job["steps"][q].get("src", json.dumps(job["steps"][q].get("import"))) for q in bpos]
                ctx.violation({"what": "a form of B evaluated differently when A ran on another instance", "kind": "interference", "b_form": b_all[k][:300], "alone": want, "interleaved": got,
                               "macro_table_changed_by": changed_at, "a_forms_before": a_before[-4:], "dedupe": "b|%s|%s" % (changed_at is not None, json.dumps(want)[:30] == json.dumps(got)[:30])},
                              {"A": A, "B": B, "order": [s.get("it", "new") for s in job["steps"] if "src" in s], "b_index": k})
                break
        if changed_at is not None and ok:
            ctx.violation({"what": "the bundled macro table shared by all instances was modified by a program", "kind": "macro-table", "by": changed_at, "dedupe": "table"}, {"A": A})
            ok = False
        if ok:
            ctx.count("interleavings_isolated")
            ctx.nontriv(json.dumps([sorted(set(a for a in A if isinstance(a, str) and a in HOSTILE)), " ".join(skeleton_text(b) for b in B)[:400]]))
    ctx.legs.append("dev")
    many_instances(ctx)
    shutil.rmtree(fdir, ignore_errors=True); shutil.rmtree(fdir2, ignore_errors=True)
    ctx.sample({"A": pairs[0][0][:12], "B": pairs[0][1][:12]})
    return ctx.finish(min_evals=100, min_nontrivial=50)


def many_instances(ctx):
    """hundreds of instances alive on one thread, each with its own marker, macro and counter closure: reads through randomly chosen older
    instances must see their own state whatever the others did since"""
    rng = ctx.rng
    jobs, plans = [], []
    for j in range(4):
        n = rng.choice([120, 250])
        steps, expect = [], []
        for i in range(n):
            steps.append({"new": {"stdlib": True}}); expect.append(None)
            steps.append({"it": i, "src": "(define marker %d)" % (7000 + i)}); expect.append(None)
            if i % 3 == 0:
                steps.append({"it": i, "src": "(define-syntax mine (syntax-rules () ((mine) 'macro-of-%d)))" % i}); expect.append(None)
            if i % 5 == 0:
                steps.append({"it": i, "src": rng.choice(HOSTILE)}); expect.append(None)
            k = rng.randrange(i + 1)
            steps.append({"it": k, "src": "marker"}); expect.append({"i": 7000 + k})
            k = rng.randrange(i + 1)
            if k % 3 == 0:
                steps.append({"it": k, "src": "(mine)"}); expect.append({"y": "macro-of-%d" % k})
        jobs.append({"id": "many-%d" % j, "interps": [], "steps": steps, "fuel": 100000}); plans.append(expect)
    # one thread on which instance 0 has evaluated thousands of failing forms (failed expansions, faults under nested forms): a second instance, and
    # instances created afterwards, still expand and evaluate derived forms
    from . import gen_text
    n_aging = 12000
    steps = [{"new": {"stdlib": True}}, {"new": {"stdlib": True}}, {"it": 1, "src": "(define kept 41)"}]
    expect = [None, None, None]
    steps += [{"it": 0, "src": t} for t in gen_text.aging(rng, n_aging)]; expect += [None] * n_aging
    probe = "(let* ((q kept) (r (cond ((and q (or #f q)) => (lambda (v) (+ v 1))) (else 0)))) (when (> r 0) (case r ((42) (list 'fine r)) (else 'bad))))"
    steps.append({"it": 1, "src": probe}); expect.append({"l": [{"y": "fine"}, {"i": 42}], "t": None})
    steps.append({"new": {"stdlib": True}}); expect.append(None)
    steps.append({"it": 2, "src": "(define kept 41)"}); expect.append(None)
    steps.append({"it": 2, "src": probe}); expect.append({"l": [{"y": "fine"}, {"i": 42}], "t": None})
    jobs.append({"id": "aged-thread", "interps": [], "steps": steps, "fuel": 100000}); plans.append(expect)
    recs = core.run_jobs(jobs, "dev", timeout=1800, tag="c19m")
    for expect, rec, job in zip(plans, recs, jobs):
        if rec is None or "steps" not in rec:
            ctx.inconclusive_cases += 1; continue
        ctx.evaluations += 1
        bad = False
        for i, (e, s) in enumerate(zip(expect, rec["steps"])):
            if "new" in job["steps"][i]:
                ctx.count("instances_created")
                if "ok" not in s:
                    ctx.violation({"what": "creating an instance failed while many instances are alive", "kind": "new-instance", "nth": sum(1 for x in job["steps"][:i + 1] if "new" in x),
                                   "observed": s, "dedupe": "many-new"}, {"steps": [x.get("src", "new") for x in job["steps"][:i + 1]][-12:]})
                    bad = True; break
            elif e is not None:
                ctx.count("reads_through_older_instances")
                if s.get("ok") != e:
                    ctx.violation({"what": "an instance among hundreds does not see its own state", "kind": "interference", "instance": job["steps"][i]["it"], "form": job["steps"][i]["src"],
                                   "expected": e, "observed": essential(s), "dedupe": "many-read|" + job["steps"][i]["src"][:6]}, {"steps": [x.get("src", "new") for x in job["steps"][:i + 1]][-12:]})
                    bad = True; break
        if not bad:
            ctx.nontriv("many|%d" % len(expect))
    ctx.legs.append("many-instances")


def skeleton_text(t):
    import re
    return re.sub(r"\d+", "N", t)


def replay(path):
    data = json.load(open(path))
    print(json.dumps(data["violation"], indent=1)[:3000])
    return 0

"""C09 - exact arithmetic is exact, inexactness is contagious.
Monitor: the real interpreter evaluates every operation of an exhaustive operand grid (plus random tuples); the observed
Number variant and components are judged by an independent model (Fractions / binary32 via struct)."""
import json, math
from fractions import Fraction
from . import core, gen_num, ref_num
from .sx import Real, f32_bits, bits_f32
from .ref_num import Unjudgeable

PID = "C09"
LEVEL = "exploration"

ARITH = ["+", "-", "*", "/"]
UNARY = ["abs", "floor", "ceiling", "-", "/", "+", "*"]
BINARY = ["+", "-", "*", "/", "floor-quotient", "floor-remainder"]


def klass(x):
    if isinstance(x, Real):
        v = x.value
        if v != v or v in (float("inf"), float("-inf")):
            return "real-special"
        return "real-zero" if v == 0 else ("real-int" if v == int(v) else "real")
    if x.denominator == 1:
        return "int-small" if ref_num.small(x) else "int-big"
    return "ratio-small" if ref_num.small(x) else "ratio-big"


def all_small_steps(op, args):
    """every step of the left fold has small exact inputs (the 'always exact' clause applies)"""
    try:
        xs = list(args)
        if op in "+*":
            acc = Fraction(0) if op == "+" else Fraction(1)
        elif len(xs) == 1:
            acc = Fraction(0) if op == "-" else Fraction(1)
        else:
            acc = xs.pop(0)
        for b in xs:
            if not (ref_num.small(acc) and ref_num.small(b)):
                return False
            if op == "/" and b == 0:
                return True
            acc = {"+": acc + b, "-": acc - b, "*": acc * b, "/": acc / b if b != 0 else acc}[op]
        return True
    except ZeroDivisionError:
        return True


def prefix_representable(op, args):
    """all intermediates of the left fold before a zero divisor fit the exact representation"""
    xs = list(args)
    if len(xs) == 1:
        xs = [Fraction(1)] + xs
    acc = xs[0]
    if not ref_num.is_exact(acc):
        return False
    for b in xs[1:]:
        if not ref_num.representable(acc):
            return False
        if not ref_num.is_exact(b) or not ref_num.representable(b):
            return False          # the running quotient is inexact from here on (an unrepresentable literal is inexact too)
        if b == 0:
            return True
        acc = acc / b
    return True


def judge(ctx, op, args, step, src):
    """returns a violation description or None; updates observation counters"""
    kind, val = core.outcome(step)
    exact_args = all(ref_num.is_exact(a) for a in args)
    key = "%s:%s" % (op, ",".join(klass(a) for a in args))
    if kind in ("missing", "abort", "fuel"):
        ctx.inconclusive_cases += 1
        return None
    obs = ref_num.from_json(val) if kind == "ok" else None
    if kind == "ok" and (obs is None or isinstance(obs, tuple)):
        return {"what": "result is not a well-formed number", "got": val}
    errk = val.get("kind") if kind == "err" else None

    def viol(what, **kw):
        d = {"what": what, "op": op, "expr": src, "observed": (val if kind != "ok" else val), "clause": kw.pop("clause", "")}
        d.update(kw)
        return d

    if op in ARITH or op == "abs":
        if exact_args:
            if op == "abs":
                t = abs(args[0])
                small = ref_num.small(args[0])
            else:
                t = ref_num.fold(op, args)
                small = all_small_steps(op, args)
            if t == "div0":
                ctx.count("clause3_div0_checked"); ctx.nontriv("div0:" + key)
                if errk == "Logic.DivisionByZero":
                    return None
                if not prefix_representable(op, args) and kind == "ok" and isinstance(obs, Real):
                    # an intermediate left the exact range and legitimately became inexact before the zero divisor
                    ctx.count("clause3_inexact_prefix_accepted"); return None
                return viol("exact division by zero did not raise DivisionByZero", clause="3")
            if kind == "panic":
                if small:
                    return viol("panic on small exact operands", clause="1", panic=val)
                ctx.count("panic_on_large_operands_(C07_matter)"); return None
            if small:
                ctx.count("clause1_checked"); ctx.nontriv("c1:" + key)
                if kind == "ok" and ref_num.is_exact(obs) and obs == t:
                    return None
                return viol("small exact operands: result is not the exact mathematical result", clause="1", expected=str(t))
            ctx.count("clause2_checked"); ctx.nontriv("c2:" + key)
            if kind == "ok" and ref_num.is_exact(obs):
                if obs == t:
                    ctx.count("clause2_exact_correct"); return None
                return viol("a different exact number was returned", clause="2", expected=str(t))
            if kind == "ok":
                ctx.count("clause2_inexact_accepted")
            else:
                ctx.count("clause2_error_accepted")
            return None
        # some inexact operand
        if kind == "panic":
            return viol("panic with an inexact operand", clause="5", panic=val)
        if op == "abs":
            exp = [abs(args[0].value)]
        else:
            exp = []
            try:
                for order in ("left", "right"):
                    exp.append(ref_num.fold(op, args, order, bounded=True))
            except Unjudgeable:
                ctx.count("unjudgeable_conversion"); return None
        ctx.count("clause5_checked"); ctx.nontriv("c5:" + key)
        if "div0" in exp:
            if errk == "Logic.DivisionByZero":
                return None
            exp = [e for e in exp if e != "div0"]
            if not exp:
                if op == "/" and not prefix_representable(op, args) and kind == "ok" and isinstance(obs, Real):
                    ctx.count("clause3_inexact_prefix_accepted"); return None
                return viol("exact division by zero did not raise DivisionByZero", clause="3")
        if errk == "Logic.DivisionByZero" and op == "/" and any(ref_num.is_exact(a) and a == 0 for a in args[1:] or args):
            return None   # inexact / exact zero: an error is as acceptable as the IEEE infinity
        if kind != "ok":
            return viol("operation with an inexact operand raised an error", clause="5")
        if not isinstance(obs, Real):
            if all(isinstance(e, Fraction) for e in exp):
                return None
            return viol("inexact operand but exact result", clause="5", expected=[repr(e) for e in exp])
        for e in exp:
            if isinstance(e, float) and ref_num.same_real(obs.bits, e):
                return None
        return viol("binary32 result differs from the IEEE operation on the converted operands", clause="5",
                    expected=[(repr(e), f32_bits(e) if isinstance(e, float) else None) for e in exp])
    if op in ("floor", "ceiling"):
        x = args[0]
        f = math.floor if op == "floor" else math.ceil
        if ref_num.is_exact(x):
            t = Fraction(f(x))
            ctx.count("clause4_floor_checked"); ctx.nontriv("c4:" + key)
            if kind == "ok" and ref_num.is_exact(obs) and obs == t:
                return None
            if kind == "ok" and isinstance(obs, Real) and not ref_num.small(x) and Fraction(obs.value) == t:
                return None
            return viol("%s of an exact number is not the greatest/least integer" % op, clause="4", expected=str(t))
        v = x.value
        if v != v or v in (float("inf"), float("-inf")):
            return None
        ctx.count("clause5_checked"); ctx.nontriv("c5:" + key)
        if kind == "ok" and isinstance(obs, Real) and obs.value == float(f(v)):
            return None
        return viol("%s of an inexact number is wrong" % op, clause="5", expected=float(f(v)))
    if op in ("floor-quotient", "floor-remainder"):
        n, d = args
        if exact_args and not (ref_num.representable(n) and ref_num.representable(d)):
            # a literal outside the exact range is an inexact number from the start: what follows is not exact arithmetic
            ctx.count("unjudgeable_unrepresentable_literal"); return None
        if exact_args:
            if d == 0:
                ctx.count("clause3_div0_checked"); ctx.nontriv("div0:" + key)
                if errk == "Logic.DivisionByZero":
                    return None
                return viol("exact division by zero did not raise DivisionByZero", clause="3")
            q = Fraction(math.floor(n / d)); r = n - d * q
            t = q if op == "floor-quotient" else r
            small = ref_num.small(n) and ref_num.small(d)
            ctx.count("clause4_fq_checked"); ctx.nontriv("c4:" + key)
            if kind == "ok" and ref_num.is_exact(obs) and obs == t:
                return None
            if small or (kind == "ok" and ref_num.is_exact(obs)):
                return viol("n = d*q + r with q = floor(n/d) violated", clause="4", expected=str(t))
            if kind == "panic":
                ctx.count("panic_on_large_operands_(C07_matter)")
            return None
        # inexact: judge integer-valued small operands only
        try:
            fn = ref_num.to_f32(n) if ref_num.is_exact(n) else n.value
            fd = ref_num.to_f32(d) if ref_num.is_exact(d) else d.value
        except Exception:
            return None
        if fn is None or fd is None or fn != fn or fd != fd or abs(fn) >= 2 ** 20 or abs(fd) >= 2 ** 20 or fn != int(fn) or fd != int(fd) or fd == 0:
            ctx.count("unjudgeable_inexact_floor_division"); return None
        q = math.floor(Fraction(fn) / Fraction(fd)); r = Fraction(fn) - Fraction(fd) * q
        t = float(q if op == "floor-quotient" else r)
        ctx.count("clause5_checked"); ctx.nontriv("c5:" + key)
        if kind == "ok" and isinstance(obs, Real) and obs.value == t:
            return None
        return viol("floor division with an inexact integer operand is wrong", clause="5", expected=t)
    return None


def operand_defs(g):
    return ["(define n%d %s)" % (i, src) for i, (src, v, tags) in enumerate(g)]


def check_operands(ctx, g, step):
    """the grid values themselves: literals and computed operands must denote what the model says"""
    kind, val = core.outcome(step)
    if kind != "ok" or "v" not in val:
        ctx.violation({"what": "operand grid could not be evaluated", "kind": "grid", "observed": step}, {"grid": [x[0] for x in g]})
        return False
    ok = True
    for (src, v, tags), o in zip(g, val["v"]):
        obs = ref_num.from_json(o)
        good = False
        if isinstance(v, Real):
            good = isinstance(obs, Real) and obs.bits in tags.get("bits", [v.bits])
        else:
            good = ref_num.is_exact(obs) and obs == v
        ctx.count("operands_checked")
        if not good:
            ok = False
            ctx.violation({"what": "operand does not denote the expected number", "kind": "operand", "expr": src, "observed": o,
                           "expected": str(v), "dedupe": src}, {"expr": src})
    return ok


def build_cases(ctx, tier, g):
    cases = []   # (op, [operand index or literal (src, value)])
    n = len(g)
    for op in UNARY:
        for i in range(n):
            cases.append((op, [i]))
    for op in BINARY:
        for i in range(n):
            for j in range(n):
                cases.append((op, [i, j]))
    sub = [k for k, x in enumerate(g) if x in gen_num.small_subgrid(g)]
    if tier == "quick":
        sub = sub[::2]
    for op in ARITH:
        for i in sub:
            for j in sub:
                for k in sub:
                    cases.append((op, [i, j, k]))
    return cases


def random_cases(ctx, count):
    rng = ctx.rng
    out = []
    def smooth():
        n = 1
        for pr in (2, 3, 5, 7):
            n *= pr ** rng.randint(0, 6)
        while n > 32767:
            n //= rng.choice([2, 3, 5, 7, 10])
        return max(1, n)

    def rnd_operand():
        r = rng.random()
        if rng.random() < 0.25:
            # numbers made of small prime factors below 2^15, and ratios of them: n-ary products and quotients of such operands cancel, so that
            # intermediate and final results stay representable although partial products of a reordered evaluation would not
            a, b = smooth() * rng.choice([1, 1, -1]), smooth()
            if rng.random() < 0.6:
                return (str(a), Fraction(a))
            return ("%d/%d" % (a, b), Fraction(a, b))
        if rng.random() < 0.04:
            # ratio literals whose written denominator needs 32 bits (the value may still reduce to a representable ratio)
            d = rng.choice([4294967294, 4294967295, 4000000000, 4294967292, 2147483648, 3000000000])
            a = rng.choice([1, 2, 4, 14, 6, -2, 1000000])
            return ("%d/%d" % (a, d), Fraction(a, d))
        if r < 0.35:
            n = rng.choice([rng.randint(-40, 40), rng.randint(-32767, 32767), rng.randint(-2 ** 31, 2 ** 31 - 1), rng.choice([46340, 46341, 65535, 65536, 2 ** 24, 2 ** 24 + 1, 2 ** 30])])
            return (str(n), Fraction(n))
        if r < 0.7:
            a = rng.choice([rng.randint(-60, 60), rng.randint(-32767, 32767), rng.randint(-2 ** 31, 2 ** 31 - 1)])
            b = rng.choice([rng.randint(1, 60), rng.randint(1, 32767), rng.randint(1, 2 ** 31 - 1)])
            return ("%d/%d" % (a, b), Fraction(a, b))
        # a decimal literal that is exactly a binary32: m * 2^e printed exactly
        m = rng.randint(-2 ** 24 + 1, 2 ** 24 - 1); e = rng.randint(-20, 20)
        v = m * (2.0 ** e)
        txt = "%.30f" % v if abs(v) < 1e15 else "%.1f" % v
        txt = txt.rstrip("0")
        if txt.endswith("."):
            txt += "0"
        return (txt, Real(f32_bits(v)))
    for _ in range(count):
        op = rng.choice(ARITH + ["floor-quotient", "floor-remainder", "abs", "floor", "ceiling"])
        k = 1 if op in ("abs", "floor", "ceiling") else (2 if op.startswith("floor-") else (rng.randint(1, 5) if rng.random() > 0.04 else rng.choice([8, 16, 40])))
        out.append((op, [rnd_operand() for _ in range(k)]))
    return out


def run_leg(ctx, leg, g, cases, rcases, tier):
    defs = operand_defs(g)
    read = "(vector %s)" % " ".join("n%d" % i for i in range(len(g)))
    per = 1500
    jobs, meta = [], []
    allc = [("grid", c) for c in cases] + [("rnd", c) for c in rcases]
    for k in range(0, len(allc), per):
        chunk = allc[k:k + per]
        steps = [{"src": d} for d in defs] + [{"src": read}]
        m = []
        for tag, (op, xs) in chunk:
            if tag == "grid":
                src = "(%s %s)" % (op, " ".join("n%d" % i for i in xs)); args = [g[i][1] for i in xs]
                shown = "(%s %s)" % (op, " ".join(g[i][0] for i in xs))
            else:
                src = "(%s %s)" % (op, " ".join(x[0] for x in xs)); args = [x[1] for x in xs]; shown = src
            steps.append({"src": src}); m.append((op, args, shown))
        jobs.append({"id": "c09-%s-%d" % (leg, k), "interps": [{"stdlib": True}], "steps": steps, "fuel": 10000})
        if len(jobs) % 4 == 2:
            from . import diff as _diff
            _diff.age(jobs[-1], __import__("random").Random(len(jobs)), 200)      # every fourth job on an interpreter that has seen 200 failing forms
        meta.append(m)
    recs = core.run_jobs(jobs, leg, timeout=600, tag="c09")
    nd = len(defs)
    for job, m, rec in zip(jobs, meta, recs):
        if rec is None or "steps" not in rec:
            ctx.inconclusive_cases += len(m)
            if rec and "abort" in rec:
                ctx.violation({"what": "driver aborted during arithmetic", "kind": "abort", "abort": rec["abort"]}, {"job": job})
            continue
        st = rec["steps"]
        if not check_operands(ctx, g, st[nd]):
            continue
        for (op, args, shown), s in zip(m, st[nd + 1:]):
            ctx.evaluations += 1
            v = judge(ctx, op, args, s, shown)
            if v is not None:
                v["leg"] = leg
                v["kind"] = "arith"
                v["dedupe"] = "%s|%s|%s" % (op, v.get("clause"), ",".join(klass(a) for a in args))
                ctx.violation(v, {"expr": shown, "leg": leg, "observed": s})
            if len(ctx.samples) < 6 and ctx.evaluations % 9973 == 1:
                ctx.sample({"expr": shown, "observed": s.get("ok", s.get("err", s)), "leg": leg})


def run(tier, seed):
    ctx = core.Ctx(PID, tier, seed, LEVEL)
    g = gen_num.grid()
    ctx.rule = ("every unary op over the %d-operand grid, every binary op (+ - * / floor-quotient floor-remainder) over all ordered pairs, every "
                "3-operand fold of + - * / over a sub-grid, plus random operand tuples; operands are literals AND values produced by arithmetic. "
                "distinct_nontrivial = distinct (clause, operation, operand representation classes) combinations judged" % len(g))
    ctx.assumptions = ["decimal literals may be rounded to binary32 directly or via binary64 (both accepted)",
                       "n-ary + and * on inexact operands may associate left or right",
                       "for operands beyond 2^15 an inexact result or an error is accepted, a different exact number is not"]
    ctx.observed["grid_size"] = len(g)
    cases = core.mine(build_cases(ctx, tier, g))
    if core.PART_I == 0:
        # a floor-quotient directly followed by a floor-remainder of operands that are numerically equal to the quotient's but differ in exactness (7 and 7.0,
        # 1/2 and 0.5, 0 and -0.0), and the other way round: each call computes from its own operands
        from fractions import Fraction as _F

        def val(x):
            return x if isinstance(x, _F) else _F(x.value) if x.value == x.value and abs(x.value) != float("inf") else None
        vals = [val(x[1]) for x in g]
        twins = [(i, j) for i in range(len(g)) for j in range(len(g)) if i != j and vals[i] is not None and vals[i] == vals[j] and ref_num.is_exact(g[i][1]) != ref_num.is_exact(g[j][1])]
        adj = []
        for (i, i2) in twins:
            for (j, j2) in twins + [(k, k) for k in range(0, len(g), 7)]:
                adj += [("floor-quotient", [i, j]), ("floor-remainder", [i2, j2])]
        ctx.rng.shuffle(twins)
        ctx.observed["adjacent_twin_cases"] = len(adj)
        cases = adj[:6000] + cases
    rcases = random_cases(ctx, 20000 if tier == "quick" else core.share(2000000))
    legs = ["dev", "release"]
    for leg in legs:
        # both build profiles see every case: without overflow checks a wrapped i32 is a wrong exact number where the dev build panics
        cs, rs = cases, rcases
        run_leg(ctx, leg, g, cs, rs, tier)
        ctx.legs.append(leg)
    ctx.exhaustive = True
    return ctx.finish(min_evals=10000, min_nontrivial=50)


def replay(path):
    data = json.load(open(path))
    expr = data["replay"].get("expr")
    leg = data["replay"].get("leg", "dev")
    recs = core.run_jobs([{"id": "r", "interps": [{"stdlib": True}], "steps": [{"src": expr}]}], leg, shards=1, timeout=60)
    print("expr:", expr); print("violation recorded:", json.dumps(data["violation"])[:800]); print("now observed:", json.dumps(recs[0]["steps"][0]))
    return 0

"""C16 - printed values read back as the same values.
Monitor: random value trees built by evaluation (literals and computed numbers incl. the C09 grid and results of arithmetic,
every binary32 class, characters, plain symbols, proper/improper lists, literal and constructed vectors) are printed with
the code `display` uses; the text is quoted and read back by the real reader.  Oracle: structural equality incl. exactness
(reals bit-equal), format rules (single spaces, dotted tail iff improper), and injectivity over the whole run."""
import json, re
from fractions import Fraction
from . import core, gen_num, sxread
from .sx import S, Sym, Char, Real, Vec, Dot, show, q, f32_bits, bits_f32

PID = "C16"
LEVEL = "exploration"

SYMS = ["a", "b", "foo", "list->vector", "x1", "set!", "+", "-", "...", "->", "<=?", "a.b", "!x", "-a", "$"]
CHARS = list("aZ09(;)\"#\\|'.+ ") + ["x", "s", "t", "n"]
KEYWORDS = ["quote", "quasiquote", "unquote", "lambda", "define", "if", "else", "=>", "_", "let", "quote"]
INITIAL = "abcxyzKQ!$%&*/:<=>?^_~"
SUBSEQ = INITIAL + "0123456789+-.@"


def rand_symbol(rng):
    """a plain symbol (no bars needed): ordinary, or peculiar - a sign or a dot followed by a sign-subsequent and any subsequents, digits included"""
    c = rng.random()
    if c < 0.2:
        return rng.choice(KEYWORDS)
    if c < 0.6:
        return rng.choice(INITIAL) + "".join(rng.choice(SUBSEQ) for _ in range(rng.randint(0, 6)))
    sign_subseq = INITIAL + "+-"
    if c < 0.85:
        return rng.choice("+-") + rng.choice(sign_subseq) + "".join(rng.choice(SUBSEQ) for _ in range(rng.randint(0, 5)))
    return "." + rng.choice(sign_subseq.replace("+", "").replace("-", "") + ".") + "".join(rng.choice(SUBSEQ) for _ in range(rng.randint(0, 4)))


def f32_values(rng, n):
    """decimal literals covering binary32 classes: subnormals, powers of ten, repr-switch edges, random bit patterns"""
    out = ["0.0", "-0.0", "1e-45", "1.4e-45", "1e-40", "1.1754942e-38", "1.1754944e-38", "3.4028235e38", "-3.4028235e38", "16777216.0", "16777218.0", "0.1", "0.3",
           "1e16", "9999999.0", "1e7", "1.0e-5", "0.00001", "0.0001", "99999.99", "123456.79", "2147483648.0", "2147483520.0", "4294967296.0", "1e21", "1e-7"]
    out += ["1e%d" % e for e in range(-10, 39)]
    for _ in range(n):
        bits = rng.getrandbits(32)
        v = bits_f32(bits)
        if v != v or v in (float("inf"), float("-inf")):
            continue
        out.append(repr(float(v)) if "e" not in repr(float(v)) else ("%.20e" % v))
    return out


def num_exprs(rng, tier):
    g = gen_num.grid()
    ex = [src for src, v, tags in g]
    ops = ["+", "-", "*", "/"]
    for _ in range(600 if tier == "quick" else 8000):
        a, b = rng.choice(g)[0], rng.choice(g)[0]
        ex.append("(%s %s %s)" % (rng.choice(ops), a, b))
    ex += f32_values(rng, 400 if tier == "quick" else 6000)
    # reals that are not written as literals: subnormals, the largest finite value, repr edges reached by arithmetic
    ex += ["(/ 1.1754944e-38 2)", "(/ 1.1754944e-38 1024)", "(* 1e-30 1e-10)", "(/ 1e-38 8.0)", "(* 1.7014117e38 2)", "(- (* 1.7014117e38 2))", "(/ 1.0 3.0e38)",
           "(* 1e-20 1e-25)", "(/ 2.0 3.0e38)", "(* 65536.0 65536.0)", "(* 2147483647 2)", "(* 1e8 1e8)", "(/ 1 1048576.0)", "(* 4194304.0 4.0)", "(+ 16777216.0 1.0)"]
    for _ in range(100 if tier == "quick" else 2000):
        ex.append("(%s %s %s)" % (rng.choice(["*", "/"]), rng.choice(["1e-20", "1e-30", "3e-38", "1.5e-38", "1e19", "3e37", "1.1754944e-38"]), rng.choice(["1e-10", "1e10", "7.0", "1e19", "3.0", "1e-9", "1024.0"])))
    ex += ["(abs -1/2)", "(- 0.0)", "(floor 2.5)", "(floor -7/2)", "(exact 2.5)", "(sqrt 16)", "(sqrt 2)", "(/ 9 3)", "(/ 1.0 3)", "(* 1.0 2147483647)", "(+ 2147483647 1)",
           "(max 1 2.0)", "(- 1/2 1/2)", "(* 46341 46341)", "(exp 1)", "(atan2 1 1)"]
    return ex


class VG:
    def __init__(self, rng, nums):
        self.rng, self.nums = rng, nums

    def atom(self):
        r = self.rng
        c = r.random()
        if c < 0.45:
            return r.choice(self.nums)
        if c < 0.6:
            return "'" + (r.choice(SYMS) if r.random() < 0.4 else rand_symbol(r))
        if c < 0.72:
            return "#\\" + r.choice(CHARS)
        if c < 0.8:
            return r.choice(["#t", "#f"])
        if c < 0.9:
            return "'()"
        return r.choice(["(vector)", "#()", "'#()"])

    def value(self, depth, width=6):
        r = self.rng
        if depth >= 2 and r.random() < 0.015:
            # sizes that small trees never reach: hundreds of elements, dozens of nesting levels
            k = r.randrange(4)
            if k == 0:
                return "(list %s)" % " ".join(self.atom() for _ in range(r.choice([100, 300])))
            if k == 1:
                return "(make-vector %d %s)" % (r.choice([100, 300]), self.atom())
            if k == 2:
                e = self.atom()
                for _ in range(r.choice([30, 60])):
                    e = r.choice(["(list %s)", "(vector %s)", "(cons 1 %s)", "(list 0 %s 2)"]) % e
                return e
            return "(cons %s %s)" % (" (cons ".join(self.atom() for _ in range(150)), self.atom() + ")" * 149)
        c = r.random()
        if depth <= 0 or c < 0.3:
            return self.atom()
        n = r.randint(0, width)
        items = [self.value(depth - 1, max(1, width - 2)) for _ in range(n)]
        if items and r.random() < 0.12:
            # lists, improper lists and vectors that look like abbreviable forms: (quote x), (quote x . y), (quote), (unquote x y)
            items[0] = "'" + r.choice(["quote", "quote", "quasiquote", "unquote", "unquote-splicing"])
            if r.random() < 0.6:
                items = items[:2]
        if c < 0.55:
            return "(list %s)" % " ".join(items)
        if c < 0.7 and items:
            # improper list: cons chain ending in a non-list (or an empty vector)
            tail = r.choice([self.atom(), "(vector)", r.choice(self.nums), "'sym"])
            out = tail
            for it in reversed(items):
                out = "(cons %s %s)" % (it, out)
            return out
        if c < 0.85:
            return "(vector %s)" % " ".join(items)
        if c < 0.92:
            return "(cons %s %s)" % (self.value(depth - 1, 2), self.value(depth - 1, 2))
        return "(make-vector %d %s)" % (r.randint(0, 3), self.value(depth - 1, 2))


def canon(j):
    """canonical structure of a value json: exactness kept, alias ids and mutability dropped. None if outside the readable subset"""
    if not isinstance(j, dict):
        return None
    if "i" in j:
        return ("i", j["i"])
    if "q" in j:
        return ("q", j["q"][0], j["q"][1])
    if "r" in j:
        v = bits_f32(j["r"])
        if v != v or v in (float("inf"), float("-inf")):
            return None
        return ("r", j["r"])
    if "b" in j:
        return ("b", j["b"])
    if "c" in j:
        return ("c", j["c"])
    if "y" in j:
        return ("y", j["y"])
    if "v" in j:
        items = [canon(x) for x in j["v"]]
        return None if any(x is None for x in items) else ("v",) + tuple(items)
    if "l" in j:
        items = [canon(x) for x in j["l"]]
        tail = canon(j["t"]) if j.get("t") is not None else ("nil",)
        if any(x is None for x in items) or tail is None:
            return None
        return ("l", tuple(items), tail)
    return None


def improper(c):
    return c[0] == "l" and c[2] != ("nil",)


def format_ok(text, c):
    """single spaces between elements, none inside brackets, ' . ' exactly for improper tails"""
    probe = re.sub(r"#\\.", "#\\\\c", text)        # characters may themselves be spaces or parentheses
    if "  " in probe or "( " in probe or " )" in probe or "\n" in probe or "\t" in probe:
        return False
    return True


def count_dots(c):
    if c[0] == "l":
        return (1 if c[2] != ("nil",) else 0) + sum(count_dots(x) for x in c[1]) + (count_dots(c[2]) if c[2] != ("nil",) else 0)
    if c[0] == "v":
        return sum(count_dots(x) for x in c[1:])
    return 0


def run(tier, seed):
    ctx = core.Ctx(PID, tier, seed, LEVEL)
    rng = ctx.rng
    n = 12000 if tier == "quick" else core.share(1200000)
    legs = ["dev"] if tier == "quick" else ["dev", "release"]
    nums = num_exprs(rng, tier)
    vg = VG(rng, nums)
    exprs = list(nums) + ["#\\" + c for c in CHARS] + ["'" + s for s in SYMS]
    while len(exprs) < n:
        exprs.append(vg.value(rng.randint(1, 5)))
    ctx.rule = ("value trees (depth <= 5, width <= 6) constructed by evaluation: numbers from the C09 operand grid, results of random arithmetic on it and %d decimal literals covering "
                "binary32 classes (subnormals, powers of ten 1e-10..1e38, shortest-representation edges, random bit patterns, -0.0), characters incl. delimiters, plain and peculiar "
                "symbols, proper and improper lists, constructed/literal/empty vectors. Each value is printed (Display) and the text read back as 'TEXT. distinct_nontrivial = "
                "distinct printed texts that read back equal" % len(f32_values(rng, 0)))
    ctx.assumptions = ["strings, non-finite reals and symbols needing bars are outside the readable subset (values containing them are skipped and counted)"]
    for leg in legs:
        per = 400
        jobs = [{"id": "c16a-%d" % k, "interps": [{"stdlib": True}], "steps": [{"src": e, "disp": True} for e in exprs[k:k + per]], "fuel": 5000} for k in range(0, len(exprs), per)]
        from . import diff as _diff
        for ji, j in enumerate(jobs):
            if ji % 4 == 1:
                _diff.age(j, ctx.rng, 150)
        recs = core.run_jobs(jobs, leg, timeout=900 if tier == "quick" else 3000, tag="c16a")
        printed = []      # (expr, canon, text)
        for k, rec in zip(range(0, len(exprs), per), recs):
            if rec is None or "steps" not in rec:
                ctx.inconclusive_cases += per; continue
            for e, s in zip(exprs[k:k + per], rec["steps"]):
                kind, val = core.outcome(s)
                if kind != "ok":
                    ctx.count("construction_not_a_value")
                    if isinstance(val, dict) and str(val.get("kind", "")).startswith("Syntax."):
                        # every constructing expression is valid source built from literals of the readable subset (numbers, characters, quoted plain
                        # symbols, whose printed text is the literal itself): a syntax error means such a text does not read back
                        ctx.violation({"what": "the reader rejects the text of a value of the readable subset (a plain symbol or a number as display prints it)", "kind": "unreadable",
                                       "expr": e[:300], "observed": val, "leg": leg, "dedupe": "unreadable|" + str(val.get("msg"))[:40]}, {"expr": e})
                    if len(ctx.observed.setdefault("construction_failures_sample", [])) < 12:
                        ctx.observed["construction_failures_sample"].append([e[:80], val.get("kind") if isinstance(val, dict) else kind])
                    continue
                c = canon(val)
                if c is None:
                    ctx.count("outside_readable_subset"); continue
                printed.append((e, c, val.get("disp")))
        jobs = [{"id": "c16b-%d" % k, "interps": [{"stdlib": True}], "steps": [{"src": "'" + t} for e, c, t in printed[k:k + per]], "fuel": 5000} for k in range(0, len(printed), per)]
        recs = core.run_jobs(jobs, leg, timeout=900 if tier == "quick" else 3000, tag="c16b")
        seen = {}
        for k, rec in zip(range(0, len(printed), per), recs):
            if rec is None or "steps" not in rec:
                ctx.inconclusive_cases += per; continue
            for (e, c, text), s in zip(printed[k:k + per], rec["steps"]):
                ctx.evaluations += 1
                kind, val = core.outcome(s)
                back = canon(val) if kind == "ok" else None
                cls = c[0] if c[0] not in ("l", "v") else ("improper" if improper(c) else c[0])
                if kind != "ok":
                    ctx.violation({"what": "printed text is not readable source text", "kind": "readback", "expr": e[:200], "text": text[:200], "observed": val,
                                   "leg": leg, "dedupe": "unreadable|%s|%s" % (cls, val.get("kind") if isinstance(val, dict) else kind)}, {"expr": e, "text": text, "leg": leg})
                    continue
                if back != c:
                    ctx.violation({"what": "printed text reads back as a different value (structure, value or exactness)", "kind": "readback", "expr": e[:200], "text": text[:200],
                                   "leg": leg, "dedupe": "different|%s" % cls}, {"expr": e, "text": text, "original": json.dumps(c)[:400], "readback": json.dumps(back)[:400], "leg": leg})
                    continue
                if not format_ok(text, c):
                    ctx.violation({"what": "printed text does not use single spaces / has spaces inside brackets", "kind": "format", "text": text[:200], "leg": leg, "dedupe": "format"},
                                  {"expr": e, "text": text})
                    continue
                # a dotted tail only when improper: count ' . ' occurrences outside characters
                dots = len(re.findall(r" \. ", re.sub(r"#\\.", "#\\\\c", text)))
                if dots != count_dots(c):
                    ctx.violation({"what": "dotted tails in the printed text do not correspond to improper lists", "kind": "format", "text": text[:200], "leg": leg, "dedupe": "dots"},
                                  {"expr": e, "text": text})
                    continue
                if text in seen and seen[text] != c:
                    ctx.violation({"what": "two distinct values print as the same text", "kind": "injectivity", "text": text[:200], "leg": leg, "dedupe": "inj"},
                                  {"text": text, "one": json.dumps(seen[text])[:300], "other": json.dumps(c)[:300]})
                    continue
                seen[text] = c
                ctx.count("roundtrips_ok"); ctx.count("class_" + cls)
                ctx.nontriv(text)
        ctx.legs.append(leg)
    # many printed texts read back within ONE source text (a few hundred dotted lists, vectors and lists one after another through one reader): the
    # list of them prints as the texts joined by single spaces
    pool = [t for t in seen if len(t) < 200 and '"' not in t and "|" not in t]
    for pick, label in ((lambda t: " . " in t, "dotted"), (lambda t: t.startswith("#("), "vectors"), (lambda t: True, "mixed")):
        texts = [t for t in pool if pick(t)]
        ctx.rng.shuffle(texts)
        texts = texts[:400]
        if len(texts) < 50:
            continue
        src = "(list %s)" % " ".join("'" + t for t in texts)
        rec = core.run_jobs([{"id": "c16many", "interps": [{"stdlib": True}], "steps": [{"src": src, "disp": True}], "fuel": 100000}], "dev", timeout=300, tag="c16m")[0]
        ctx.evaluations += 1
        k, v = core.outcome(rec["steps"][0]) if rec and "steps" in rec else ("missing", None)
        want = "(" + " ".join(texts) + ")"
        if k != "ok" or v.get("disp") != want:
            ctx.violation({"what": "printed texts that read back one by one do not read back when %d of them stand in one source text" % len(texts), "kind": "many-in-one-source", "class": label,
                           "observed": (v if k != "ok" else "another value"), "dedupe": "many|" + label}, {"expr": src[:5000]})
        else:
            ctx.count("texts_read_back_in_one_source", len(texts))
    formerly_cyclic(ctx)
    for e in exprs[:2] + exprs[-3:]:
        ctx.sample({"expr": e})
    return ctx.finish(min_evals=1000, min_nontrivial=200)


def formerly_cyclic(ctx):
    """vectors that contained themselves, were displayed in that state (by display, or inside an error message) and then had the cycle removed: they are
    ordinary vectors of the readable subset again, and every later display - alone, nested, through other objects, on a second interpreter of the thread -
    prints their elements"""
    rng = ctx.rng
    jobs, meta = [], []
    for k in range(60):
        n = rng.randint(1, 4)
        i = rng.randrange(n)
        elems = [rng.randint(0, 99) for _ in range(n)]
        how = rng.choice(["(vector-set! zv %d zv)" % i, "(vector-set! zv %d (list 1 zv))" % i, "(vector-set! zv %d (vector zv zv))" % i])
        shown = rng.choice(["(display zv)", "(display (list zv zv))", "(car zv)", "(vector-ref zv zv)", "(display (vector 0 zv))"])
        txt = "#(%s)" % " ".join(map(str, elems))
        steps = [{"it": 0, "src": "(define zv (vector %s))" % " ".join(map(str, elems))}, {"it": 0, "src": "(define zw (vector 'w zv))"}, {"it": 0, "src": how},
                 {"it": 0, "src": shown, "disp": True}] * 1
        steps += [{"it": 0, "src": "(vector-set! zv %d %d)" % (i, elems[i])}]
        checks = [("zv", txt), ("(list zv zv)", "(%s %s)" % (txt, txt)), ("zw", "#(w %s)" % txt), ("(vector zv (cons 1 zv))", "#(%s (1 . %s))" % (txt, txt))]
        steps += [{"it": 0, "src": e, "disp": True} for e, _ in checks]
        # an equal vector made afterwards on ANOTHER interpreter of the same thread
        steps += [{"it": 1, "src": "(vector %s)" % " ".join(map(str, elems)), "disp": True}]
        jobs.append({"id": "c16fc", "interps": [{"stdlib": True}, {"stdlib": True}], "steps": steps, "fuel": 50000}); meta.append((how, shown, checks + [("other interpreter", txt)]))
    recs = core.run_jobs(jobs, "dev", timeout=600, tag="c16fc")
    for (how, shown, checks), rec in zip(meta, recs):
        if rec is None or "steps" not in rec:
            ctx.inconclusive_cases += 1; continue
        st = rec["steps"][5:]
        for (e, want), r in zip(checks, st):
            ctx.evaluations += 1
            k, v = core.outcome(r)
            got = v.get("disp") if k == "ok" and isinstance(v, dict) else None
            if got != want:
                ctx.violation({"what": "a vector that contained itself earlier (and was displayed then) does not print its elements after the cycle was removed", "kind": "formerly-cyclic",
                               "made_cyclic_by": how, "displayed_by": shown, "expr": e, "expected": want, "observed": got if got is not None else r, "dedupe": "fc|" + e}, {"expr": e, "how": how, "shown": shown})
            else:
                ctx.count("formerly_cyclic_prints_ok")
    ctx.legs.append("formerly-cyclic")


def replay(path):
    data = json.load(open(path))
    e = data["replay"]["expr"]
    rec = core.run_jobs([{"id": "r", "interps": [{"stdlib": True}], "steps": [{"src": e, "disp": True}]}], data["replay"].get("leg", "dev"), shards=1, timeout=60)[0]
    s = rec["steps"][0]
    print(e, "->", json.dumps(s)[:500])
    if "ok" in s and "disp" in s["ok"]:
        rec2 = core.run_jobs([{"id": "r", "interps": [{"stdlib": True}], "steps": [{"src": "'" + s["ok"]["disp"]}]}], "dev", shards=1, timeout=60)[0]
        print("read back:", json.dumps(rec2["steps"][0])[:500])
    return 0

#!/usr/bin/env python3
"""Refresh the generated tables of DESIGN.md (repaired defects from known_findings.json, seeded changes from seeded/*/meta.json)."""
import glob, json, os, re

V = os.path.dirname(os.path.dirname(os.path.abspath(__file__)))
STRENGTHENED = {"C02-m20", "C03-m19", "C03-m20", "C04-m19", "C05-m19", "C05-m20", "C06-m19", "C07-m19", "C08-m19", "C08-m20", "C09-m19", "C10-m19", "C10-m20", "C12-m19", "C14-m20", "C16-m19", "C17-m19", "C18-m19", "C18-m20", "C19-m20", "C01-m18", "C02-m18", "C04-m17", "C04-m18", "C05-m18", "C08-m18", "C10-m18", "C13-m18", "C14-m17", "C14-m18", "C16-m18", "C17-m17", "C19-m18", "C01-m15", "C02-m16", "C05-m15", "C05-m16", "C10-m15", "C11-m15", "C14-m15", "C14-m16", "C17-m15", "C19-m16", "C01-m13", "C02-m13", "C03-m13", "C06-m13", "C07-m13", "C08-m13", "C08-m14", "C10-m14", "C12-m13", "C13-m13", "C14-m13", "C17-m14", "C13-m11", "C13-m12", "C15-m12", "C17-m11", "C17-m12", "C19-m11", "C19-m12", "C01-m11", "C03-m11", "C04-m11", "C05-m11", "C06-m11", "C08-m11", "C08-m12", "C10-m11", "C11-m10", "C12-m10", "C13-m9", "C14-m10", "C15-m9", "C18-m10", "C19-m10", "C02-m10", "C03-m9", "C04-m9", "C07-m9", "C07-m10", "C09-m9", "C14-m7", "C15-m7", "C17-m7", "C17-m8", "C18-m7", "C18-m8", "C19-m7", "C08-m7", "C11-m7", "C11-m8", "C09-m7", "C09-m8", "C10-m7", "C10-m8", "C12-m7", "C13-m8", "C02-m8", "C03-m8", "C05-m7", "C05-m8", "C06-m8", "C07-m7", "C07-m8", "C12-m5", "C12-m6", "C14-m5", "C14-m6", "C15-m5", "C15-m6", "C16-m5", "C16-m6", "C17-m5", "C17-m6", "C19-m6", "C02-m6", "C06-m5", "C06-m6", "C07-m5", "C07-m6", "C10-m5", "C11-m5", "C11-m6", "C01-m5", "C03-m6", "C04-m5", "C04-m6", "C05-m5", "C08-m5", "C13-m5", "C13-m6", "C15-m4", "C18-m4", "C13-m3", "C14-m4", "C19-m3", "C19-m4", "C07-m3", "C05-m3", "C05-m4", "C02-m4", "C03-m4", "C01-m3", "C01-m4", "C15-m1", "C01-m1", "C01-m2", "C03-m2", "C04-m1", "C07-m2", "C13-m1", "C14-m1", "C16-m2", "C18-m2", "C19-m2", "C12-m2"}


def main():
    d = json.load(open(os.path.join(V, "known_findings.json")))
    rows = ["| property | commit | what failed |", "|---|---|---|"]
    for f in d["fixed"]:
        m = re.match(r"fixed: property=(\S+) (\S+) (.*)", f)
        rows.append("| %s | %s | %s |" % (m.group(1), m.group(2), m.group(3).replace("|", "\\|")))
    fixed = "\n".join(rows)
    rows = ["| change | needs, to manifest | caught by |", "|---|---|---|"]
    for mp in sorted(glob.glob(os.path.join(V, "seeded", "*", "meta.json"))):
        j = json.load(open(mp))
        name = os.path.basename(os.path.dirname(mp))
        caught = "; ".join(j.get("detected_by") or ["NOT CAUGHT"])
        if name in STRENGTHENED:
            caught += " *(strengthened)*"
        rows.append("| %s | %s | %s |" % (name, j.get("needs_to_manifest", "").replace("|", "\\|"), caught.replace("|", "\\|")))
    seeded = "\n".join(rows)
    p = os.path.join(V, "DESIGN.md")
    s = open(p).read()
    s = re.sub(r"<!-- FIXED-BEGIN -->.*<!-- FIXED-END -->", "<!-- FIXED-BEGIN -->\n" + fixed + "\n<!-- FIXED-END -->", s, flags=re.S)
    s = re.sub(r"<!-- SEEDED-BEGIN -->.*<!-- SEEDED-END -->", "<!-- SEEDED-BEGIN -->\n" + seeded + "\n<!-- SEEDED-END -->", s, flags=re.S)
    open(p, "w").write(s)
    print("tables refreshed: %d fixed, %d seeded" % (len(d["fixed"]), len(rows) - 2))


if __name__ == "__main__":
    main()

"""C03 - mutable state: bindings and vectors are shared by reference.
Monitor: random operation histories over counters/accumulators/cells made by generator procedures and over vectors aliased
through variables, arguments, containers and captured references; every write uses a unique value and is followed by a
probe read of every alias.  Oracle: the store model of ref_scheme, plus the alias partition of the vectors reachable from
the probe (Rc pointer identity reported by the driver must equal the model's object identities)."""
import json
from . import core, diff
from .sx import S, Sym, Vec, Dot, show, q, skeleton
from .ref_scheme import OutOfModel, Strategy

PID = "C03"
LEVEL = "exploration"

MAKERS = {
    # zero parameters + internal definition: each call must get a fresh binding
    "make-counter": "(define (make-counter) (define n 0) (lambda () (set! n (+ n 1)) n))",
    # parameter captured and assigned
    "make-acc": "(define (make-acc total) (lambda (d) (set! total (+ total d)) total))",
    # one frame reads a variable, has ANOTHER closure assign it, and reads it again (twice)
    "make-acc2": "(define (make-acc2 start) (define total start) (define (add! k) (set! total (+ total k)) total) (lambda (k) (list total (add! k) total (add! k) total)))",
    # two closures sharing one binding
    "make-cell": "(define (make-cell init) (define c init) (list (lambda () c) (lambda (x) (set! c x) c)))",
    # binding introduced by a lambda application, shared by getter and setter, plus a private counter per call
    "make-box": "(define (make-box init) ((lambda (b hits) (list (lambda () (set! hits (+ hits 1)) (list b hits)) (lambda (x) (set! b x) x))) init 0))",
    # rest parameter captured and replaced
    "make-bag": "(define (make-bag . items) (lambda (x) (set! items (cons x items)) items))",
    # let*: one name bound twice, a closure made in between keeps the first binding; (getter-of-first setter-of-second getter-of-second)
    "make-twin": "(define (make-twin a) (let* ((n a) (get1 (lambda () n)) (n (+ n 100)) (set2 (lambda (x) (set! n x) n)) (get2 (lambda () n))) (list get1 set2 get2)))",
    # let*: a closure in an earlier clause mentions a name a later clause binds: it means the parameter, not the later binding
    "make-late": "(define (make-late n) (let* ((outer (lambda () n)) (n (* n 2)) (bump (lambda (x) (set! n (+ n x)) n))) (list outer bump (lambda () n))))",
    # let: all initialisers see the outer n; the body's closures share the new n
    "make-par": "(define (make-par n) (let ((outer (lambda () n)) (n (* n 3))) (list outer (lambda (x) (set! n x) n) (lambda () n))))",
    # the parameter is assigned by one closure and shadowed by an inner lambda parameter of the same name in another
    "make-shadow": "(define (make-shadow n) (list (lambda () n) (lambda (x) (set! n x) n) (lambda (n) (set! n (+ n 1)) n)))",
}
TRIPLES = ("make-twin", "make-late", "make-par", "make-shadow")


def parse(text):
    from . import sxread
    return sxread.parse_one(text)


class Hist:
    def __init__(self, rng):
        self.rng = rng
        self.forms = []
        self.counters = []      # (name, kind)
        self.vecs = []          # names of variables holding a mutable vector
        self.lits = []          # variables holding literal vectors
        self.lists = []         # variables holding lists of vectors
        self.globs = []
        self.u = 100
        self.n = 0

    def uniq(self):
        self.u += 1
        return self.u

    def name(self, p):
        self.n += 1
        return "%s%d" % (p, self.n)

    def alias_expr(self):
        """an expression denoting one of the mutable vectors, through some alias path"""
        r = self.rng
        c = r.random()
        if self.lists and c < 0.25:
            l = r.choice(self.lists)
            return [S(r.choice(["car", "cadr"])), S(l)]
        if c < 0.4:
            holders = [v for v in self.vecs if v.startswith("vv")]
            if holders:
                return [S("vector-ref"), S(r.choice(holders)), r.randint(0, 1)]
        return S(r.choice(self.vecs))

    def probe(self):
        items = [S(v) for v in self.vecs + self.lits] + [S(l) for l in self.lists] + [S(g) for g in self.globs]
        for name, kind in self.counters:
            if kind == "make-cell":
                items.append([[S("car"), S(name)]])
            if kind in TRIPLES and kind != "make-shadow":
                items.append([[S("car"), S(name)]]); items.append([[S("caddr"), S(name)]])
            if kind == "make-shadow":
                items.append([[S("car"), S(name)]])
        return [S("vector")] + items

    def build(self, steps):
        r = self.rng
        F = self.forms
        makers = r.sample(list(MAKERS), r.randint(2, 4))
        for m in makers:
            F.append(parse(MAKERS[m]))
        for _ in range(r.randint(2, 5)):
            m = r.choice(makers)
            n = self.name("c")
            arg = {"make-counter": [], "make-acc": [r.randint(0, 9)], "make-cell": [self.uniq()], "make-box": [self.uniq()], "make-bag": [1, 2][:r.randint(0, 2)]}.get(m, [r.randint(1, 9)])
            F.append([S("define"), S(n), [S(m)] + arg])
            self.counters.append((n, m))
        v1 = self.name("v"); F.append([S("define"), S(v1), [S("vector"), 1, 2, 3]]); self.vecs.append(v1)
        g = self.name("g"); F.append([S("define"), S(g), 0]); self.globs.append(g)
        F.append(parse("(define (set-%s! x) (set! %s x))" % (g, g)))
        # a procedure whose single frame reads the global, lets another procedure assign it and reads it again
        F.append(parse("(define (rd-%s k) (list %s (set-%s! k) %s (set-%s! (+ k 1)) %s))" % (g, g, g, g, g, g)))
        self.rdg = g
        if r.random() < 0.5:
            # globals named like the variables the generators define internally: an internal definition is local to its body, the globals keep their values
            for nm, val in (("n", 5000), ("c", 6000), ("total", 7000)):
                F.append([S("define"), S(nm), val]); self.globs.append(nm)
        # a procedure whose parameter is named like the global and that ends in a tail call of the setter: the setter still assigns the global
        F.append(parse("(define (via-%s! %s) (set-%s! (+ %s 1000)))" % (g, g, g, g)))
        F.append(parse("(define (via2-%s! x) (define %s 7) (set-%s! (+ x %s)))" % (g, g, g, g)))
        F.append(parse("(define (poke! vec i x) (vector-set! vec i x))"))
        F.append(parse("(define (poke-%s! i x) (vector-set! %s i x))" % (v1, v1)))
        lv = self.name("lit"); F.append([S("define"), S(lv), r.choice([q(Vec([1, 2])), Vec([1, 2])])]); self.lits.append(lv)
        # literal vectors nested inside quoted lists and inside other literal vectors are literal too
        nl, nv = self.name("nlit"), self.name("nlit")
        F.append([S("define"), S(nl), q([Vec([1, 2]), 5, [Vec([7])]])])
        F.append([S("define"), S(nv), r.choice([q(Vec([Vec([3, 4]), 6])), Vec([Vec([3, 4]), 6])])])
        self.nested = [[S("car"), S(nl)], [S("vector-ref"), S(nv), 0], [S("car"), [S("car"), [S("cdr"), [S("cdr"), S(nl)]]]]]
        self.lits += [nv]
        self.lists += []
        if r.random() < 0.3:
            # a global procedure that assigns its own name from inside its body, and a recursive one that is reassigned from outside while an alias survives:
            # the assignment changes the one global binding, which the body, the alias and later callers all use
            F.append(parse("(define (once!) (set! once! (lambda () 'sold-out)) 'last-ticket)"))
            F.append(parse("(define (count-down n) (if (= n 0) 0 (+ 1 (count-down (- n 1)))))"))
            F.append(parse("(define old-count-down count-down)"))
            F.append(parse("(define (make-replacer) (lambda (v) (set! count-down (lambda (n) v)) v))"))
            F.append(parse("(define replace! (make-replacer))"))
            self.selfrep = True
        else:
            self.selfrep = False
        if r.random() < 0.3:
            # a procedure with an internal definition stores a closure of its frame into a vector it is given (and into a local vector it returns)
            F.append(parse("(define slots (vector 0 0 0))"))
            F.append(parse("(define (register! vec k start) (define total start) (vector-set! vec k (lambda (d) (set! total (+ total d)) total)) k)"))
            F.append(parse("(define (make-ops start) (define total start) (define ops (vector (lambda (d) (set! total (+ total d)) total) (lambda () total))) ops)"))
            F.append(parse("(define ops1 (make-ops 50))"))
            F.append([S("register!"), S("slots"), 0, self.uniq()]); F.append([S("register!"), S("slots"), 2, self.uniq()])
            self.regs = True
        else:
            self.regs = False
        self.big = None
        if r.random() < 0.25:
            # a vector of hundreds of slots with an alias: writes and reads at both ends and in the middle
            b1, b2 = self.name("big"), self.name("big")
            n = r.choice([100, 300, 1000])
            F.append([S("define"), S(b1), [S("make-vector"), n, 0]]); F.append([S("define"), S(b2), S(b1)])
            self.big = (b1, b2, n)
        self.cyc = None
        if r.random() < 0.2:
            # a vector stored into itself (through an alias): it is never returned as a whole, only read through eq? and element reads
            c1, c2 = self.name("cyc"), self.name("cyc")
            F.append([S("define"), S(c1), [S("vector"), self.uniq(), self.uniq(), 0]]); F.append([S("define"), S(c2), S(c1)])
            F.append([S("begin"), [S("vector-set!"), S(c1), 2, S(c2)], q(S("stored"))])
            self.cyc = (c1, c2)
        F.append(self.probe())
        while len(F) < steps:
            c = r.random()
            wrote = True
            if self.regs and r.random() < 0.12:
                F.append(r.choice([[[S("vector-ref"), S("slots"), r.choice([0, 2])], r.randint(1, 9)], [[S("vector-ref"), S("ops1"), 0], r.randint(1, 9)],
                                   [S("list"), [[S("vector-ref"), S("ops1"), 1]], [[S("vector-ref"), S("slots"), 0], 0], [[S("vector-ref"), S("slots"), 2], 0]],
                                   [S("register!"), S("slots"), 1, self.uniq()]]))
                continue
            if self.selfrep and r.random() < 0.12:
                F.append(r.choice([parse("(once!)"), parse("(list (old-count-down 2) (count-down 3))"), [S("replace!"), self.uniq()], parse("(list (old-count-down 1) (count-down 1) (eq? old-count-down count-down))")]))
                continue
            if self.cyc and r.random() < 0.08:
                c1, c2 = self.cyc
                inner = [S("vector-ref"), S(r.choice([c1, c2])), 2]
                if r.random() < 0.5:
                    inner = [S("vector-ref"), inner, 2]
                F.append([S("begin"), [S("vector-set!"), inner, r.randint(0, 1), self.uniq()], q(S("written"))])
                F.append([S("list"), [S("eq?"), [S("vector-ref"), S(c1), 2], S(c2)], [S("vector-ref"), S(c1), 0], [S("vector-ref"), S(c2), 1],
                          [S("vector-ref"), [S("vector-ref"), [S("vector-ref"), S(c2), 2], 2], r.randint(0, 1)], [S("eq?"), [S("vector-ref"), [S("vector-ref"), S(c1), 2], 2], S(c1)]])
                continue
            if self.big and r.random() < 0.1:
                b1, b2, n = self.big
                i = r.choice([0, n - 1, n // 2, r.randrange(n)])
                a, b = r.sample([b1, b2], 2) if r.random() < 0.7 else (b1, b1)
                F.append([S("vector-set!"), S(a), i, self.uniq()])
                F.append([S("list"), [S("vector-ref"), S(b), i], [S("vector-ref"), S(b), r.choice([0, n - 1, (i + 1) % n])], [S("vector-length"), S(b)], [S("eq?"), S(b1), S(b2)]])
                continue
            if c < 0.22:
                name, kind = r.choice(self.counters)
                if kind == "make-counter":
                    F.append([S(name)])
                elif kind in ("make-acc", "make-acc2"):
                    F.append([S(name), r.randint(1, 5)])
                elif kind == "make-bag":
                    F.append([S(name), self.uniq()])
                elif kind in TRIPLES:
                    k = r.random()
                    if k < 0.5:
                        F.append([[S("cadr"), S(name)], self.uniq()])
                    elif k < 0.75 and kind == "make-shadow":
                        F.append([[S("caddr"), S(name)], self.uniq()])
                    F.append([S("list"), [[S("car"), S(name)]]] + ([[[S("caddr"), S(name)]]] if kind != "make-shadow" else []))
                else:
                    if r.random() < 0.6:
                        F.append([[S("cadr"), S(name)], self.uniq()])
                    F.append([[S("car"), S(name)]])
            elif c < 0.34 and len(self.vecs) < 9:
                n = self.name("v"); k = r.random()
                if k < 0.35:
                    src = r.choice(self.vecs)
                    if src.startswith("vv"):
                        n = self.name("vv")                                                 # an alias of a container is a container
                    F.append([S("define"), S(n), S(src)])                                   # alias through a variable
                elif k < 0.6:
                    n = self.name("vv")
                    F.append([S("define"), S(n), [S("make-vector"), 2, S(r.choice(self.vecs))]])  # container filled with one vector twice
                elif k < 0.8:
                    F.append([S("define"), S(n), [S("vector"), self.uniq(), self.uniq()]])
                else:
                    l = self.name("l")
                    F.append([S("define"), S(l), [S("list"), S(r.choice(self.vecs)), S(r.choice(self.vecs))]]); self.lists.append(l); n = None
                if n:
                    self.vecs.append(n)
            elif c < 0.62:
                tgt = self.alias_expr()
                idx = r.randint(0, 1)
                val = self.uniq()
                holders = [v for v in self.vecs if v.startswith("vv")]
                plain = [v for v in self.vecs if not v.startswith("vv")]
                if holders and r.random() < 0.25:
                    # store a vector into a container vector (never into itself: no cyclic structures)
                    tgt = S(r.choice(holders)); val = S(r.choice(plain))
                k = r.random()
                if k < 0.4:
                    F.append([S("vector-set!"), tgt, idx, val])
                elif k < 0.6:
                    F.append([S("poke!"), tgt, idx, val])
                elif k < 0.8:
                    F.append([[S("lambda"), [S("vec"), S("x")], [S("vector-set!"), S("vec"), idx, S("x")]], tgt, val])
                else:
                    F.append([S("poke-%s!" % self.vecs[0]), idx, val if isinstance(val, int) else self.uniq()])
            elif c < 0.70:
                g = r.choice(self.globs)
                if g != self.rdg:
                    F.append(r.choice([[S("set!"), S(g), self.uniq()], [S("define"), S(g), self.uniq()]]))
                else:
                    F.append(r.choice([[S("set!"), S(g), self.uniq()], [S("set-%s!" % g), self.uniq()], [S("define"), S(g), self.uniq()], [S("via-%s!" % g), self.uniq()],
                                       [S("via2-%s!" % g), self.uniq()], [S("begin"), [S("via-%s!" % g), self.uniq()], S(g)], [S("rd-%s" % g), self.uniq()], [S("rd-%s" % g), self.uniq()]]))
            elif c < 0.76:
                tgt = S(r.choice(self.lits)) if r.random() < 0.5 else r.choice(self.nested)
                F.append([S("vector-set!"), tgt, 0, self.uniq()])        # literal vectors reject mutation, also nested ones
                F.append(r.choice(self.nested))
            elif c < 0.82:
                # a same-named local must not be affected / must not affect the global
                g = r.choice(self.globs)
                F.append([[S("lambda"), [S(g)], [S("set!"), S(g), self.uniq()], S(g)], 5])
            elif c < 0.88:
                # replace a container slot by a fresh, structurally equal vector, then mutate through the container
                holders = [v for v in self.vecs if v.startswith("vv")]
                if holders:
                    h = r.choice(holders)
                    F.append([S("vector-set!"), S(h), 1, [S("vector"), 0, 0]])
                    F.append([S("vector-set!"), S(h), 0, [S("vector"), 0, 0]])
                    F.append([S("vector-set!"), [S("vector-ref"), S(h), 1], 0, self.uniq()])
                else:
                    wrote = False
            elif c < 0.93:
                # identity, not structural equality: twin vectors with equal contents replace each other in a container slot
                t1, t2, h = self.name("v"), self.name("v"), self.name("vv")
                i = r.randint(0, 1)
                F.append([S("define"), S(t1), [S("vector"), 0, 0]])
                F.append([S("define"), S(t2), [S("vector"), 0, 0]])
                F.append([S("define"), S(h), [S("vector"), S(t1), S(t1)]])
                F.append([S("vector-set!"), S(h), i, S(t2)])
                F.append([S("vector-set!"), S(r.choice([t1, t2])), 0, self.uniq()])
                self.vecs += [t1, t2, h]
            elif c < 0.96:
                # closures from the same generator are distinct objects with distinct state
                same = [n for n, k in self.counters if k == "make-counter"]
                if len(same) >= 2:
                    a, b = r.sample(same, 2)
                    h = self.name("cv")
                    F.append([S("define"), S(h), [S("vector"), S(a), S(a)]])
                    F.append([S("vector-set!"), S(h), 0, S(b)])
                    F.append([[S("vector-ref"), S(h), 0]])
                    F.append([[S("vector-ref"), S(h), 1]])
                    F.append([S(a)]); F.append([S(b)])
                wrote = False
            else:
                wrote = False
                F.append([S("eq?"), self.alias_expr(), self.alias_expr()])
            if wrote:
                F.append(self.probe())
        F.append(self.probe())
        return F


def run(tier, seed):
    ctx = core.Ctx(PID, tier, seed, LEVEL)
    n = 1500 if tier == "quick" else core.share(30000)
    steps = 60
    legs = ["dev"] if tier == "quick" else ["dev", "release"]
    ctx.rule = ("random histories (up to %d top-level steps) over 2-5 counters/accumulators/cells/boxes/bags made by 2-3 generator procedures, up to 6 vectors "
                "aliased through variables, arguments, list and vector containers and captured references, a global assigned directly, through a closure and by "
                "redefinition, and literal vectors; unique written values; a probe read of every alias after every write. distinct_nontrivial = distinct "
                "history skeletons containing at least one write through an alias and one probe" % steps)
    ctx.assumptions = ["store model of ref_scheme; eq? on vectors is object identity; alias partition taken from Rc pointer identity inside one probe value"]
    hists = []
    while len(hists) < n:
        h = Hist(ctx.rng).build(ctx.rng.randint(20, steps))
        try:
            exp = diff.model_run(h, Strategy())
        except OutOfModel:
            ctx.count("generated_discarded"); continue
        # only the intended error kind may occur
        if any(e[0] == "err" and e[1] != "immutable" for e in exp):
            ctx.count("generated_discarded"); continue
        hists.append(h)
    for leg in legs:
        jobs = [diff.job_for(h, "h%d" % i) for i, h in enumerate(hists)]
        for ji, j in enumerate(jobs):
            if ji % 5 == 2:
                diff.age(j, ctx.rng, ctx.rng.choice([50, 400]))
        recs = core.run_jobs(jobs, leg, timeout=600 if tier == "quick" else 3000, tag="c03")
        for h, rec in zip(hists, recs):
            ctx.evaluations += 1
            if rec is None or "steps" not in rec:
                if rec and "abort" in rec:
                    ctx.violation({"what": "process died during a store history", "kind": "abort"}, {"forms": [show(f) for f in h], "abort": rec["abort"]})
                else:
                    ctx.inconclusive_cases += 1
                continue
            verdict, detail = diff.compare_history(h, rec["steps"], check_alias=True)
            ctx.count("steps_evaluated", len(h))
            ctx.count("probe_reads", sum(1 for f in h if isinstance(f, list) and f and f[0] == S("vector")))
            ctx.count("immutable_rejections_observed", sum(1 for s in rec["steps"] if s.get("err", {}).get("kind") == "Logic.RequiresMutable"))
            if verdict == "ok":
                ctx.count("histories_agree")
                ctx.nontriv(" ".join(skeleton(f) for f in h))
            elif verdict in ("oom", "fuel"):
                ctx.inconclusive_cases += 1
            else:
                ctx.violation({"what": "store history disagrees with the store model (value, alias partition or error)", "kind": "store", "why": detail["why"][:300],
                               "form": detail["form"], "leg": leg, "dedupe": skeleton_of(detail["form"])},
                              {"forms": [show(f) for f in h], "detail": detail, "leg": leg})
        ctx.legs.append(leg)
    if tier == "thorough" and core.PART_I == 0:
        # Miri leg: the same histories, a few of them, under the UB / aliasing interpreter (RefCell borrows of the environment and of vectors)
        from . import sanitize
        sl = hists[:16]
        mjobs = [diff.job_for(h[:40], "m%d" % i) for i, h in enumerate(sl)]
        mrecs, reports = sanitize.miri_run(mjobs, processes=16)
        for r in reports:
            if r["ub"]:
                ctx.violation({"what": "Miri reports undefined behaviour during a store history", "kind": "miri", "report": r["stderr"][-600:], "dedupe": "miri"}, {"report": r["stderr"]})
        for h, rec in zip(sl, mrecs):
            if rec is None or "steps" not in rec:
                ctx.count("miri_histories_without_record"); continue
            verdict, detail = diff.compare_history(h[:40], rec["steps"], check_alias=True)
            if verdict == "ok":
                ctx.count("miri_histories_agree"); ctx.count("miri_steps", len(rec["steps"]))
            elif verdict == "mismatch":
                ctx.violation({"what": "store history disagrees with the store model under Miri", "kind": "store", "why": detail["why"][:300], "form": detail["form"], "leg": "miri",
                               "dedupe": "miri|" + skeleton_of(detail["form"])}, {"forms": [show(f) for f in h[:40]], "detail": detail})
        ctx.legs.append("miri")
    ctx.sample({"history": [show(f) for f in hists[0]][:40]})
    return ctx.finish(min_evals=100, min_nontrivial=50)


def skeleton_of(text):
    import re
    return re.sub(r"\d+", "N", text)[:60]


def replay(path):
    from . import sxread
    data = json.load(open(path))
    forms = [sxread.parse_one(t) for t in data["replay"]["forms"]]
    rec = core.run_jobs([diff.job_for(forms)], data["replay"].get("leg", "dev"), shards=1, timeout=120)[0]
    verdict, detail = diff.compare_history(forms, rec["steps"], check_alias=True)
    print(verdict, json.dumps(detail, default=str)[:1500])
    return 0 if verdict == "ok" else 1
